#!/venv/bin/python
"""Regenerate MANIFEST.json from the table below (keeps it valid at all times)."""
import json, os
HERE = os.path.dirname(os.path.abspath(__file__))
props = [json.loads(l) for l in open(os.path.join(HERE, "properties.jsonl"))]
ids = [p["id"] for p in props]

CHECKS = {}   # id -> dict(category, text, note, technique, design_ref)

def reg(pid, category, text, note, technique):
    CHECKS[pid] = dict(category=category, text=text, note=note, technique=technique)

exec(open(os.path.join(HERE, "manifest_table.py")).read())

checks = []
for pid in ids:
    if pid not in CHECKS:
        continue
    c = CHECKS[pid]
    checks.append({
        "property_id": pid,
        "quick_cmd": "./check %s quick" % pid,
        "thorough_cmd": "./check %s thorough" % pid,
        "evidence_file": "evidence/%s.json" % pid,
        "replay_cmd_template": "./check %s --replay {path}" % pid,
        "engine": "zcv",
        "level_claimed": {"category": c["category"], "text": c["text"],
                          "design_ref": "DESIGN.md §4 %s" % pid},
        "level_note": c["note"],
        "technique": c["technique"],
    })
na = [{"property_id": pid, "reason": NOT_YET.get(pid, "check not built yet (work in progress); no other technique is substituted")}
      for pid in ids if pid not in CHECKS]
m = {
    "version": 1,
    "setup_cmd": "./setup.sh",
    "hooks": {
        "guard": "ZCONFIG_VERIF",
        "enable": "no hooks are needed: the harness imports /repo/src afresh in a new process and patches documented override points (BaseLoader.createResource/openResource) from outside",
        "baseline_off_cmd": "cd /repo && /venv/bin/python -m pytest -ra -q -p no:cacheprovider --timeout=900 --continue-on-collection-errors",
        "source_commits": [],
        "add_only": True,
    },
    "engines": [{"name": "zcv", "path": "zcv/", "serves_properties": sorted(CHECKS),
                 "kind_free_text": "property-based testing: exhaustive enumeration over class-representative alphabets + Hypothesis strategies / state machines against reference models, metamorphic relations and round-trips; own bucketing and ddmin-style shrinking; plain-JSON replay files"}],
    "checks": checks,
    "notes": "One entry point: ./check <ID> <quick|thorough> [--replay FILE]. Exit 0 held / 1 VIOLATION / 2 harness problem. VERIF_SEED selects the random supplement; enumerations are seed-independent. known_findings.txt lists open/fixed findings.",
    "not_applicable": na,
}
json.dump(m, open(os.path.join(HERE, "MANIFEST.json"), "w"), indent=1)
print("checks:", len(checks), "not_applicable:", len(na))
