"""Composition features of the schema language and their mechanical expansion (C11, C12).

expand_extends(ast)          -> the same schema with every 'extends' written out
compose(rng, ast, pkgbase)   -> Composed: main document + base schema files + component packages
                                using prefixes, schema-level extends and (diamond) imports
"""

import copy
import importlib
import os
import shutil
import sys
import tempfile

from zcv import gen


def expand_extends(ast):
    """Write out every derived section type: base items first, key type and datatype inherited
    unless overridden, 'implements' not inherited, wildcard defaults kept as written (they are
    normalised under the key type of the type they now belong to)."""
    out = copy.deepcopy(ast)
    done = {}
    for t in out["types"]:
        base = done.get(t["extends"].lower()) if t.get("extends") else None
        if base is not None:
            t["items"] = copy.deepcopy(base["items"]) + t["items"]
            if not t.get("keytype"):
                t["keytype"] = base.get("keytype")
            if t.get("datatype") is None:
                t["datatype"] = base.get("datatype")
            t["extends"] = None
        done[t["name"].lower()] = t
    return out


DOTTED = ("zcv.dt.",)


def relativise(name, prefix):
    if name and prefix and name.startswith(prefix + "."):
        return name[len(prefix):]
    return name


_ZIPS = [0]


class Composed:
    def __init__(self):
        self.main_xml = None
        self.files = {}        # relative path -> text (base schemas)
        self.packages = {}     # package name -> {filename: text}
        self.features = set()
        self.root = None
        self.namespace_packages = set()    # packages written WITHOUT __init__.py (PEP 420)
        self.link_packages = False         # top-level package directories are symbolic links

    def materialise(self):
        """Write everything below a fresh directory that is put on sys.path; -> main path."""
        if getattr(self, "fixed_root", False):
            # one directory per process, emptied and filled again: the same path names (and URLs)
            # carry other contents from one case to the next
            self.root = os.path.join(tempfile.gettempdir(), "zcv-comp-fixed-%d" % os.getpid())
            shutil.rmtree(self.root, ignore_errors=True)
            os.makedirs(self.root)
        else:
            self.root = tempfile.mkdtemp(prefix="zcv-comp-")
        for rel, text in self.files.items():
            p = os.path.join(self.root, *rel.split("/"))
            os.makedirs(os.path.dirname(p), exist_ok=True)
            with open(p, "w", encoding="utf-8") as f:
                f.write(text)
        for pkg, files in self.packages.items():
            d = os.path.join(self.root, *pkg.split("."))
            os.makedirs(d, exist_ok=True)
            parts = pkg.split(".")
            for i in range(1, len(parts) + 1):
                init = os.path.join(self.root, *parts[:i], "__init__.py")
                if not os.path.exists(init) and pkg not in self.namespace_packages:
                    open(init, "w").close()
            for fn, text in files.items():
                target = os.path.join(d, *fn.split("/"))
                os.makedirs(os.path.dirname(target), exist_ok=True)
                with open(target, "w", encoding="utf-8") as f:
                    f.write(text)
        self._zip_entries = []
        for top in sorted(getattr(self, "zipped", ())):
            # the package lives in a zip archive, and the archive is on sys.path under a spelling
            # that is not normalised ('<dir>/./<archive>'): the way PYTHONPATH=./lib.zip puts it
            import zipfile
            src = os.path.join(self.root, top)
            if not os.path.isdir(src) or "." in top:
                continue
            _ZIPS[0] += 1       # the interpreter remembers the directory of every archive it has read, by path
            arch = os.path.join(self.root, "zcvzip-%s-%d.zip" % (top, _ZIPS[0]))
            with zipfile.ZipFile(arch, "w") as z:
                for d, _dirs, fns in os.walk(src):
                    for fn in fns:
                        full = os.path.join(d, fn)
                        z.write(full, os.path.relpath(full, self.root))
            shutil.rmtree(src)
            entry = self.root + "/./" + os.path.basename(arch)
            sys.path.insert(0, entry)
            self._zip_entries.append(entry)
        if self.link_packages:
            store = os.path.join(self.root, "zcv-pkgstore")
            os.makedirs(store, exist_ok=True)
            for top in sorted(set(p.split(".")[0] for p in self.packages)):
                src = os.path.join(self.root, top)
                if os.path.isdir(src) and not os.path.islink(src):
                    os.rename(src, os.path.join(store, top))
                    os.symlink(os.path.join(store, top), src)
        main = os.path.join(self.root, "main", "schema.xml")
        os.makedirs(os.path.dirname(main), exist_ok=True)
        with open(main, "w", encoding="utf-8") as f:
            f.write(self.main_xml)
        sys.path.insert(0, self.root)
        importlib.invalidate_caches()
        return main

    def cleanup(self):
        if self.root:
            if self.root in sys.path:
                sys.path.remove(self.root)
            for entry in getattr(self, "_zip_entries", []):
                if entry in sys.path:
                    sys.path.remove(entry)
                sys.path_importer_cache.pop(entry, None)
            tops = set(p.split(".")[0] for p in self.packages)
            for m in list(sys.modules):
                if m.split(".")[0] in tops:
                    del sys.modules[m]
            importlib.invalidate_caches()
            shutil.rmtree(self.root, ignore_errors=True)
            self.root = None


def apply_prefixes(rng, doc, outer=None):
    """Rewrite dotted datatype / keytype names of one document (schema or component AST) with
    prefix attributes.  -> set of feature labels."""
    feats = set()
    p0 = rng.choice([None, "zcv", "zcv", "zcv.dt", "zcv.dt", "zcv.dtalt"]) if outer is None else outer
    if outer is None and p0:
        doc["prefix"] = p0
        feats.add("prefix:document")
    elif outer is None and rng.random() < 0.2:
        doc["prefix"] = ""
        feats.add("prefix:empty")
    for key in ("datatype", "keytype"):
        if doc.get(key) and p0 and rng.random() < 0.7:
            new = relativise(doc[key], p0)
            if new != doc[key]:
                doc[key] = new
                feats.add("prefix:relative-on-document-element")
    for t in doc.get("types", []):
        eff = p0
        r = rng.random()
        if p0 == "zcv" and r < 0.4:
            t["prefix"] = rng.choice([".dt", ".dt", ".dtalt"])
            eff = "zcv" + t["prefix"]
            feats.add("prefix:relative-nested")
        elif r < 0.6:
            t["prefix"] = rng.choice(["zcv.dt", "zcv", "zcv.dtalt"])
            eff = t["prefix"]
            feats.add("prefix:absolute-nested")
        elif r < 0.68:
            # an empty prefix attribute contributes nothing: the next prefix out still applies
            t["prefix"] = ""
            feats.add("prefix:empty")
        for key in ("datatype", "keytype"):
            if t.get(key) and eff and rng.random() < 0.8:
                new = relativise(t[key], eff)
                if new != t[key]:
                    t[key] = new
                    feats.add("prefix:relative-on-sectiontype-element")
        for it in t.get("items", []):
            if it.get("datatype") and eff and rng.random() < 0.8:
                new = relativise(it["datatype"], eff)
                if new != it["datatype"]:
                    it["datatype"] = new
                    feats.add("prefix:relative-on-key")
    for it in doc.get("items", []):
        if it.get("datatype") and p0 and rng.random() < 0.8:
            new = relativise(it["datatype"], p0)
            if new != it["datatype"]:
                it["datatype"] = new
                feats.add("prefix:relative-on-key")
    return feats


def compose(rng, ast, pkgbase, use_components=True, use_bases=True, use_prefixes=True):
    """ast: plain AST (may use extends).  -> Composed."""
    c = Composed()
    relpkg = False
    main = copy.deepcopy(ast)
    types = main["types"]
    if any(t.get("extends") for t in types):
        c.features.add("extends")
    # --- components: the first types (and the abstract types) move into packages C, A, B
    if use_components and types and rng.random() < 0.7:
        n = len(types)
        k1 = rng.randint(0, n)
        k2 = rng.randint(k1, n)
        k3 = rng.randint(k2, n)
        pc, pa, pb = (pkgbase + "c", pkgbase + "a", pkgbase + ".sub.b")
        parts = {pc: types[:k1], pa: types[k1:k2], pb: types[k2:k3]}
        main["types"] = types[k3:]
        comp_c = {"abstract": main["abstract"], "types": parts[pc], "imports": []}
        main["abstract"] = []
        fa = rng.choice(["component.xml", "extra.xml"])
        pc2 = (pc, "component.xml") if rng.random() < 0.4 else pc      # both spellings of one component
        comp_a = {"abstract": [], "types": parts[pa], "imports": [pc2]}
        comp_b = {"abstract": [], "types": parts[pb],
                  "imports": [pc, (pa, fa) if fa != "component.xml" else pa] + ([pc] if rng.random() < 0.3 else [])}
        imports = [(pa, fa) if fa != "component.xml" else pa, pb]
        if rng.random() < 0.4:
            imports.insert(rng.randrange(len(imports) + 1), pc)
        if rng.random() < 0.3:
            imports.append(imports[0])
        if rng.random() < 0.3:
            # relative package name under the document's prefix
            relpkg = True
            imports = [(".sub.b" if x == pb else x) for x in imports]
        main["imports"] = imports
        for comp, me in ((comp_c, pc), (comp_a, (pa, fa) if fa != "component.xml" else pa), (comp_b, pb)):
            if rng.random() < 0.25:
                # a component that (pointlessly) imports itself: it is already known, nothing happens
                comp["imports"] = list(comp["imports"]) + [me]
                c.features.add("components:self-import")
        if relpkg:
            c.features.add("prefix:relative-package")
        comp_d = None
        if use_prefixes and len(parts[pb]) >= 2 and rng.random() < 0.5:
            # a component with a prefix of its own that names the next package relative to it: the
            # first types of B move on to a package D next to it, which B imports as '.d'
            pd = pkgbase + ".sub.d"
            kd = rng.randint(1, len(parts[pb]) - 1)
            comp_d = {"abstract": [], "types": parts[pb][:kd], "imports": [pc, (pa, fa) if fa != "component.xml" else pa]}
            comp_b["types"] = parts[pb][kd:]
            comp_b["imports"] = list(comp_b["imports"]) + [".d"]
            comp_b["prefix"] = pkgbase + ".sub"
            c.features.add("prefix:relative-package-inside-component")
        for comp in (comp_c, comp_a, comp_b) + ((comp_d,) if comp_d else ()):
            if use_prefixes:
                if comp is comp_b and comp_d:
                    c.features |= apply_prefixes(rng, comp, outer=comp_b["prefix"])
                else:
                    c.features |= apply_prefixes(rng, comp)
        if comp_d:
            c.packages[pd] = {"component.xml": gen.render_schema(comp_d, root="component")}
        c.packages[pc] = {"component.xml": gen.render_schema(comp_c, root="component")}
        if rng.random() < 0.25:
            # a package that re-binds its __path__: its resources live where the new list says
            c.packages[pc] = {"__init__.py": "import os\n__path__ = [os.path.join(os.path.dirname(__file__), 'impl')]\n",
                              "impl/component.xml": c.packages[pc]["component.xml"]}
            c.features.add("components:package-rebinds-its-path")
        c.packages[pa] = {fa: gen.render_schema(comp_a, root="component")}
        c.packages[pb] = {"component.xml": gen.render_schema(comp_b, root="component")}
        c.features.add("components:diamond")
        if fa != "component.xml":
            c.features.add("components:file=")
    # --- schema-level extends: top-level items are spread over base files
    if use_bases and rng.random() < 0.6:
        nb = rng.randint(1, 3)
        names = ["../bases/b%d.xml" % (i + 1) for i in range(nb)]
        if nb > 1 and rng.random() < 0.5:
            names[0] = "b1.xml"
        buckets = [[] for _ in range(nb + 1)]
        for it in main["items"]:
            buckets[rng.randrange(nb + 1)].append(it)
        main["items"] = buckets[nb]
        # the extender may leave key type and/or datatype to its bases (all of which agree)
        inherit_dt = bool(main.get("datatype")) and rng.random() < 0.4
        inherit_kt = bool(main.get("keytype")) and rng.random() < 0.4
        # all imports and types go to the base that is read first: the one listed last
        for i in range(nb):
            b = {"keytype": main.get("keytype"), "datatype": None, "abstract": [], "types": [], "items": buckets[i]}
            if i == nb - 1:
                b["abstract"], b["types"], b["imports"] = main["abstract"], main["types"], main.get("imports", [])
                main["abstract"], main["types"], main["imports"] = [], [], []
                again = [x for x in b["imports"] if not (x[0] if isinstance(x, (list, tuple)) else x).startswith(".")]
                if again and rng.random() < 0.4:
                    # the extending schema imports, once more, a package that its base has imported
                    main["imports"] = [rng.choice(again)]
                    main["imports_last"] = True
                    c.features.add("components:import-repeated-by-the-extender")
            if inherit_dt:
                b["datatype"] = main["datatype"]
            elif main.get("datatype") and rng.random() < 0.5:
                b["datatype"] = main["datatype"]
            if relpkg and b.get("imports"):
                b["prefix"] = pkgbase
            elif use_prefixes:
                c.features |= apply_prefixes(rng, b)
            rel = names[i]
            path = "main/" + rel if not rel.startswith("../") else rel[3:]
            c.files[path] = gen.render_schema(b)
        if inherit_dt:
            main["datatype"] = None
            c.features.add("schema-extends:datatype-from-bases")
        if inherit_kt:
            main["keytype"] = None
            c.features.add("schema-extends:keytype-from-bases")
        if inherit_dt and not inherit_kt and main.get("keytype"):
            c.features.add("schema-extends:explicit-keytype-inherited-datatype")
        if nb == 1 and not (inherit_dt or inherit_kt) and (main.get("keytype") or main.get("datatype")) and rng.random() < 0.6:
            # a chain: main -> b1 -> b0, where only the bottom declares key type / datatype
            only = "main/" + names[0] if not names[0].startswith("../") else names[0][3:]
            b0 = {"keytype": main.get("keytype"), "datatype": main.get("datatype"), "abstract": [],
                  "types": [], "items": []}
            b1 = {"keytype": None, "datatype": None, "abstract": main["abstract"] if not buckets[0] and False else [],
                  "types": [], "items": []}
            # re-render b1 without its own declarations, extending b0
            import re as _re
            text = c.files[only]
            head, rest = text.split("\n", 1)
            head = _re.sub(r' (keytype|datatype)="[^"]*"', "", head)
            head = head.replace("<schema", '<schema extends="b0.xml"', 1)
            c.files[only] = head + "\n" + rest
            if use_prefixes and not relpkg:
                c.features |= apply_prefixes(rng, b0)
            c.files[only.rsplit("/", 1)[0] + "/b0.xml"] = gen.render_schema(b0)
            main["keytype"] = None
            main["datatype"] = None
            c.features.add("schema-extends:chain")
        main["extends_urls"] = " ".join(names)
        c.features.add("schema-extends:%d" % nb)
    if relpkg and main.get("imports"):
        main["prefix"] = pkgbase
    elif relpkg:
        # the imports moved into a base schema: that document carries the prefix
        pass
    elif use_prefixes:
        c.features |= apply_prefixes(rng, main)
    c.main_xml = gen.render_schema(main)
    return c
