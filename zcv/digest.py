"""Plain-data digests of what ZConfig returns (value trees), comparable with zcv.refload."""

from zcv import dt as zdt


def digest(v, problems=None, path="top"):
    """Value tree -> nested plain data; the same shape zcv.refload builds.

    problems: optional list collecting structural complaints (attribute set mismatches).
    """
    if path.count(".") + path.count("[") + path.count("{") > 60:
        # deeper than any value tree of the generated families: an object that contains itself
        if problems is not None:
            problems.append("%s: value tree does not end (an object reachable from itself?)" % path[:80])
        return {"endless": type(v).__name__}
    if isinstance(v, zdt.Wrapped):
        path = path + "."
        tag = "W2" if getattr(v, "kind", 1) == 2 else "W"
        return {tag: digest(v.value, problems, path)}
    if hasattr(v, "getSectionAttributes") and hasattr(v, "getSectionType"):
        attrs = {}
        names = list(v.getSectionAttributes())
        public = sorted(k for k in v.__dict__ if not k.startswith("_"))
        # names with a leading underscore are legal attribute names, but the object keeps its own
        # book-keeping under such names too: only the public ones can be cross-checked here
        if problems is not None and sorted(n for n in names if not n.startswith("_")) != public:
            problems.append("%s: getSectionAttributes()=%r but instance attributes=%r"
                            % (path, sorted(names), public))
        for a in names:
            attrs[a] = digest(getattr(v, a), problems, path + "." + a)
        return {"type": v.getSectionType(), "name": v.getSectionName(), "attrs": attrs}
    if isinstance(v, float):
        return {"float": repr(v)}
    if isinstance(v, tuple):
        return {"tuple": [digest(x, problems, path) for x in v]}
    if isinstance(v, list):
        return [digest(x, problems, path + "[]") for x in v]
    if isinstance(v, dict):
        return {k: digest(x, problems, path + "{}") for k, x in v.items()}
    if v is None or isinstance(v, (str, int, bool)):
        return v
    d = getattr(v, "__dict__", None)
    if isinstance(d, dict) and path.count(".") < 8:
        attrs = {}
        for k in sorted(d):
            if k.startswith("__"):
                continue
            x = d[k]
            if x is None or isinstance(x, (str, int, bool, float, list, tuple, dict)) or hasattr(x, "__dict__"):
                if callable(x) and not hasattr(x, "getSectionAttributes") and type(x).__name__ in ("function", "method", "builtin_function_or_method"):
                    attrs[k] = {"callable": getattr(x, "__name__", "?")}
                else:
                    attrs[k] = digest(x, problems, path + "." + k)
        return {"object": type(v).__name__, "vars": attrs}
    return {"object": type(v).__name__}


def attr_orders(v, path="top", out=None):
    """The order in which every section value BELOW the top lists its attributes (the children of a
    section type, inherited ones first, in declaration order)."""
    out = [] if out is None else out
    if len(path) > 400:
        return out
    if isinstance(v, zdt.Wrapped):
        attr_orders(v.value, path, out)
    elif hasattr(v, "getSectionAttributes") and hasattr(v, "getSectionType"):
        names = list(v.getSectionAttributes())
        if path != "top":
            out.append((path, names))
        for a in sorted(names):
            attr_orders(getattr(v, a), path + "." + a, out)
    elif isinstance(v, list):
        for i, x in enumerate(v):
            attr_orders(x, "%s[%d]" % (path, i), out)
    return out


_PLAIN = (str, int, bool, float, type(None))


def _plain(v):
    if isinstance(v, _PLAIN):
        return v == v
    if isinstance(v, (list, tuple)):
        return all(_plain(x) for x in v)
    if isinstance(v, dict):
        return all(_plain(k) and _plain(x) for k, x in v.items())
    return False


def unequal_plain_values(a, b, path="top", depth=0):
    """Two value trees with equal digests, compared the way an application would: every mapping,
    list and tuple made of strings and numbers only must compare equal with '==' (and not unequal
    with '!=').  -> path of the first pair that does not, or None"""
    if depth > 40:
        return None
    if isinstance(a, zdt.Wrapped) and isinstance(b, zdt.Wrapped):
        return unequal_plain_values(a.value, b.value, path, depth + 1)
    if hasattr(a, "getSectionAttributes") and hasattr(b, "getSectionAttributes"):
        for n in a.getSectionAttributes():
            if hasattr(b, n):
                r = unequal_plain_values(getattr(a, n), getattr(b, n), path + "." + n, depth + 1)
                if r:
                    return r
        return None
    if isinstance(a, list) and isinstance(b, list) and len(a) == len(b) and not _plain(a):
        for i, (x, y) in enumerate(zip(a, b)):
            r = unequal_plain_values(x, y, "%s[%d]" % (path, i), depth + 1)
            if r:
                return r
        return None
    if isinstance(a, (dict, list, tuple)) and _plain(a) and _plain(b):
        if not (a == b) or (a != b):
            return "%s: %r == %r is %r" % (path, a, b, a == b)
    return None


def containers(v, out=None):
    """All mutable containers (lists/dicts) reachable from a value tree, by id."""
    out = {} if out is None else out
    if isinstance(v, zdt.Wrapped):
        containers(v.value, out)
    elif hasattr(v, "getSectionAttributes"):
        for a in v.getSectionAttributes():
            containers(getattr(v, a), out)
    elif isinstance(v, list):
        out[id(v)] = v
        for x in v:
            containers(x, out)
    elif isinstance(v, dict):
        out[id(v)] = v
        for x in v.values():
            containers(x, out)
    return out


def first_diff(a, b, path=""):
    """Human-readable first difference between two digests (or None)."""
    if type(a) is not type(b):
        return "%s: %r vs %r" % (path or ".", a, b)
    if isinstance(a, dict):
        if set(a) != set(b):
            return "%s: keys %r vs %r" % (path or ".", sorted(a, key=str), sorted(b, key=str))
        for k in a:
            d = first_diff(a[k], b[k], "%s/%s" % (path, k))
            if d:
                return d
        return None
    if isinstance(a, list):
        if len(a) != len(b):
            return "%s: length %d vs %d (%r vs %r)" % (path or ".", len(a), len(b), a, b)
        for i, (x, y) in enumerate(zip(a, b)):
            d = first_diff(x, y, "%s[%d]" % (path, i))
            if d:
                return d
        return None
    if a != b:
        return "%s: %r vs %r" % (path or ".", a, b)
    return None


def schema_digest(schema):
    """Description of a schema through its public accessors: types, implementers of abstract
    types, children (key, attribute, kind, min/max occurrence, datatype name, handler), raw
    defaults."""
    reg = getattr(schema, "registry", None)

    def dtname(f):
        if f is None:
            return None
        try:
            return reg.find_name(f) if reg is not None else repr(f)
        except Exception:
            return getattr(f, "__name__", type(f).__name__)

    def info_digest(key, ci):
        d = {"key": key, "name": ci.name, "attribute": ci.attribute, "kind": type(ci).__name__,
             "min": ci.minOccurs, "max": "unbounded" if ci.maxOccurs > 10 ** 6 else ci.maxOccurs,
             "handler": ci.handler, "datatype": dtname(ci.datatype)}
        if ci.issection():
            d["sectiontype"] = ci.sectiontype.name
        else:
            dv = ci.getdefault()
            d["default"] = default_digest(dv)
        return d

    def default_digest(dv):
        if dv is None:
            return None
        if isinstance(dv, list):
            return [default_digest(x) for x in dv]
        if isinstance(dv, dict):
            return {k: default_digest(x) for k, x in dv.items()}
        if hasattr(dv, "value"):
            d = {"raw": dv.value}
            # whatever else the object that holds a default says about it -- except where in which
            # document it was written, which differs between two ways of writing one schema
            names = getattr(type(dv), "__slots__", None) or sorted(getattr(dv, "__dict__", {}))
            for n in names:
                if n not in ("value", "position") and not n.startswith("_"):
                    d[n] = repr(getattr(dv, n, None))
            return d
        return repr(dv)

    def type_digest(t):
        if t.isabstract():
            return {"abstract": True, "implementers": list(t.getsubtypenames())}
        return {"abstract": False, "keytype": dtname(t.keytype), "datatype": dtname(t.datatype),
                "children": [info_digest(k, ci) for k, ci in t]}

    out = {"top": {"keytype": dtname(schema.keytype), "datatype": dtname(schema.datatype),
                   "handler": schema.handler,
                   "children": [info_digest(k, ci) for k, ci in schema]},
           "types": {}}
    for n in sorted(schema.gettypenames()):
        out["types"][n] = type_digest(schema.gettype(n))
    return out
