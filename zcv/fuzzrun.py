"""Run an Atheris campaign for one property from a runner shard (thorough tier)."""

import glob
import json
import os
import re
import shutil
import subprocess
import tempfile

HERE = os.path.dirname(os.path.dirname(os.path.abspath(__file__)))
PY = shutil.which("python3-vt") or "/opt/veriftools/pyvenv/bin/python"


def available():
    try:
        return subprocess.run([PY, "-c", "import atheris"], capture_output=True, timeout=60).returncode == 0
    except Exception:
        return False


def run(res, mod, pid, runs, seed, max_len=256, timeout=900):
    """Fuzz; every crashing input is decoded and re-evaluated in this process."""
    if not available():
        res.notes.append("atheris stage not run: python3-vt/atheris unavailable")
        return
    work = tempfile.mkdtemp(prefix="zcv-fuzz-")
    env = dict(os.environ)
    env["PYTHONPATH"] = HERE + os.pathsep + env.get("PYTHONPATH", "")
    env.pop("PYTHONPYCACHEPREFIX", None)
    env["PYTHONDONTWRITEBYTECODE"] = "1"
    try:
        corpus = os.path.join(work, "corpus")
        subprocess.run([PY, "-m", "zcv.fuzz.driver", pid, "--seed-corpus", corpus], env=env, cwd=work,
                       capture_output=True, timeout=120)
        cmd = [PY, "-m", "zcv.fuzz.driver", pid, "-runs=%d" % runs, "-seed=%d" % max(1, seed),
               "-max_len=%d" % max_len, "-artifact_prefix=%s/" % work, "-print_final_stats=1",
               "-timeout=30", corpus]
        try:
            p = subprocess.run(cmd, env=env, cwd=work, capture_output=True, text=True, timeout=timeout,
                               errors="replace")
            out = p.stdout + p.stderr
        except subprocess.TimeoutExpired as e:
            out = (e.stdout or b"").decode("utf-8", "replace") + (e.stderr or b"").decode("utf-8", "replace") \
                if isinstance(e.stdout, bytes) or isinstance(e.stderr, bytes) else ""
            res.notes.append("atheris stage hit its time budget (inconclusive for the remainder)")
        m = re.search(r"stat::number_of_executed_units:\s*(\d+)", out)
        n = int(m.group(1)) if m else 0
        m = re.search(r"cov: (\d+)", out)
        res.evaluations += n
        res.count("atheris:executions", n)
        res.count("atheris:corpus-files", len(os.listdir(corpus)) if os.path.isdir(corpus) else 0)
        if n:
            res.notes.append("atheris: %d executions, seed %d" % (n, seed))
        for crash in sorted(glob.glob(os.path.join(work, "crash-*")) + glob.glob(os.path.join(work, "timeout-*"))):
            d = subprocess.run([PY, "-m", "zcv.fuzz.driver", pid, "--decode", crash], env=env, cwd=work,
                               capture_output=True, text=True, timeout=120)
            try:
                cases = json.loads(d.stdout)
            except ValueError:
                res.notes.append("atheris: undecodable artifact %s" % os.path.basename(crash))
                continue
            hit = False
            for case in cases:
                for f in mod.evaluate(case):
                    res.fail(f["sig"], f["case"], f["detail"])
                    hit = True
            if not hit:
                res.notes.append("atheris artifact %s did not reproduce outside the fuzzer" % os.path.basename(crash))
        if len(res.samples) < 1 and os.path.isdir(corpus):
            files = sorted(os.listdir(corpus))
            if files:
                res.sample({"atheris-corpus-entry": repr(open(os.path.join(corpus, files[-1]), "rb").read()[:120])})
    finally:
        shutil.rmtree(work, ignore_errors=True)
