"""Replica of a few loads in an interpreter started with -O (assert statements compiled away).

usage: python -O -m zcv.optprobe < jobs.json > verdicts.json
jobs: [{"xml": schema document, "text": configuration text or null}, ...]
verdict per job: "schema-error" | "schema-ok" | "ok:<digest hash>" | "reject" | "internal:<type>"
"""
import io
import json
import os
import sys


def main():
    repo = os.environ.get("VERIF_REPO", "/repo")
    sys.path.insert(0, os.path.join(repo, "src"))
    import ZConfig
    from zcv import digest
    jobs = json.load(sys.stdin)
    out = []
    for job in jobs:
        try:
            schema = ZConfig.loadSchemaFile(io.StringIO(job["xml"]))
        except ZConfig.SchemaError:
            out.append("schema-error")
            continue
        except Exception as e:  # noqa
            out.append("internal:" + type(e).__name__)
            continue
        if job.get("text") is None:
            out.append("schema-ok")
            continue
        try:
            cfg, _h = ZConfig.loadConfigFile(schema, io.StringIO(job["text"]), "file:///zcv/main.conf")
            out.append("ok:" + json.dumps(digest.digest(cfg), sort_keys=True, default=repr))
        except ZConfig.ConfigurationError:
            out.append("reject")
        except Exception as e:  # noqa
            out.append("internal:" + type(e).__name__)
    json.dump(out, sys.stdout)


def verdicts(jobs, optimise):
    """Run the jobs in a child interpreter (optimise: '' or '-O').  -> list of verdicts."""
    import subprocess
    here = os.path.dirname(os.path.dirname(os.path.abspath(__file__)))
    env = dict(os.environ, PYTHONPATH=here + os.pathsep + os.environ.get("PYTHONPATH", ""))
    env.pop("PYTHONOPTIMIZE", None)
    cmd = [sys.executable] + ([optimise] if optimise else []) + ["-m", "zcv.optprobe"]
    p = subprocess.run(cmd, input=json.dumps(jobs), capture_output=True, text=True, env=env, timeout=600)
    if p.returncode != 0:
        raise RuntimeError("optprobe failed: " + p.stderr[-500:])
    return json.loads(p.stdout)


if __name__ == "__main__":
    main()
