"""Grammar-level text generation shared by C03 and C17 (no schema involved)."""

import itertools

# one representative per character class the line grammar distinguishes;
# '$$' (not '$') because a lone '$' is C04's business.
TOKENS = ["<", ">", "/", "%", "#", "(", ")", "$$", "a", "B", "1", "-", " ", "\t",
          " ", "é"]

# complete-line shapes for the nesting logic
LINE_SHAPES = ["<a>", "<A n>", "<b>", "<a/>", "<a N />", "</a>", "</A >", "</b>",
               "k v", "k", "", "# c", "%import p", "<a b c>", "</a n>", "<a/ >",
               "k a\x0cb", "# c\u2028k v", "k a\x85b\rc", "</A>", "< a>", "<\ta n/>", "<a>b>",
               "k $(ZCV_EMPTY)", "k a$(ZCV_EMPTY)b $(ZCV_WORD)", "k $(ZCV_UNSET)",
               # a section type is any run of non-blank characters: also one with a '/' in it
               "<a/b>", "</a/b>"]
# extra shapes only used with the recording context (schemaless refuses them)
DIRECTIVE_SHAPES = ["%define n v", "%define N", "%include f", "k $n", "%define m $n",
                    "%Define n v", "%define", "%import", "%foo x", "% define n v",
                    "%define 1n v", "%include", "%includes f", "%import p q", "%include a b", "%include\tx\ty",
                    "%key_value k v", "%directive import p", "%define_ n v", "%import_ p", "%section a", "%include $(ZCV_EMPTY)"]


def single_lines(maxtok, prefix_filter=None):
    """All token sequences of 0..maxtok tokens (as strings, duplicates removed lazily
    by the caller -- different token sequences give different strings except that
    none of the tokens is a concatenation of others, so they are distinct)."""
    for n in range(0, maxtok + 1):
        for t in itertools.product(TOKENS, repeat=n):
            yield "".join(t)


def single_lines_with_first(first_tokens, maxtok):
    for f in first_tokens:
        for n in range(0, maxtok):
            for t in itertools.product(TOKENS, repeat=n):
                yield f + "".join(t)


def contexts(line):
    """The three embeddings of one generated line."""
    return (line, "<a>\n" + line + "\n</a>\n", "<a>\n" + line)


def multi_line_texts(shapes, maxlines):
    for n in range(0, maxlines + 1):
        for t in itertools.product(shapes, repeat=n):
            yield "\n".join(t) + ("\n" if n % 2 else "")


def random_texts(st, with_directives=False, max_lines=40, max_depth=6):
    """Hypothesis strategy for mostly-well-formed texts with faults mixed in."""
    word = st.text(alphabet="abcXYZ019-._", min_size=1, max_size=6)
    anyword = st.one_of(
        word,
        st.text(alphabet=st.characters(blacklist_categories=("Cs",),
                                       blacklist_characters="\n$"),
                min_size=1, max_size=5).map(lambda s: "".join(s.split()) or "x"))
    ws = st.sampled_from(["", "", " ", "  ", "\t", " ", " \t "])
    ws1 = st.sampled_from([" ", "  ", "\t", " ", " \t "])
    value = st.one_of(
        st.just(""), word, st.lists(anyword, min_size=1, max_size=4).map(" ".join),
        st.sampled_from(["(x)", "<a>", "</a>", "#c", "%d", "$$", "a$$b", "$$$$", "/", ">",
                         "a  b", "x (y) z"]))

    @st.composite
    def texts(draw):
        lines = []
        stack = []
        n = draw(st.integers(0, max_lines))
        for _ in range(n):
            kind = draw(st.integers(0, 29))
            ind = draw(ws)
            trail = draw(ws)
            if kind <= 7:
                k = draw(anyword)
                if k[0] in "<%#":
                    k = "k" + k
                if "(" in k or ")" in k:
                    k = k.replace("(", "").replace(")", "") or "k"
                v = draw(value)
                sep = draw(ws1) if v else draw(ws)
                if v[:1] == "(" and draw(st.booleans()):
                    sep = ""
                lines.append(ind + k + sep + v + trail)
            elif kind <= 12 and len(stack) < max_depth:
                t = draw(word)
                nm = draw(st.one_of(st.none(), word, anyword))
                if nm is not None and ("(" in nm or ")" in nm or nm.endswith("/")
                                       or nm.endswith(">")):
                    nm = "n"
                hdr = t + ((draw(ws1) + nm) if nm else "") + draw(ws)
                lines.append(ind + "<" + hdr + ">" + trail)
                stack.append(t)
            elif kind <= 17 and stack:
                t = stack.pop()
                t = draw(st.sampled_from([t, t.upper(), t.lower(), t.swapcase()]))
                lines.append(ind + "</" + t + draw(ws) + ">" + trail)
            elif kind <= 19:
                t = draw(word)
                nm = draw(st.one_of(st.none(), word))
                lines.append(ind + "<" + t + ((draw(ws1) + nm) if nm else "") + draw(ws)
                             + "/>" + trail)
            elif kind == 20:
                lines.append(ind)
            elif kind == 21:
                lines.append(ind + "#" + draw(value))
            elif kind == 22:
                lines.append(ind + "%import" + draw(ws1) + draw(word) + trail)
            elif kind == 23 and with_directives:
                which = draw(st.integers(0, 3))
                nm = draw(st.sampled_from(["n", "N", "m", "long_name", "x1"]))
                if which == 0:
                    lines.append(ind + "%define" + draw(ws1) + nm + draw(ws1) + draw(value) + trail)
                elif which == 1:
                    lines.append(ind + "%define" + draw(ws1) + nm + trail)
                elif which == 2:
                    lines.append(ind + "%include" + draw(ws1) + draw(word) + trail)
                else:
                    lines.append(ind + "k" + draw(ws1) + draw(st.sampled_from(
                        ["$" + nm, "${" + nm + "}", "$" + nm + " x", "a${" + nm + "}b"])))
            elif kind == 24:
                # faults
                lines.append(ind + draw(st.sampled_from([
                    "<a b c>", "<", "</", "<>", "</>", "< a>", "<a", "</a", "(k v", ")",
                    "%", "%foo x", "%import", "%define", "% import p", "%IMPORT p",
                    "<a(b>", "<a b/ >", "<a/ >", "</a b>", "<a b />", "<(a)>"])) + trail)
            elif kind == 25 and stack:
                # wrong closer
                lines.append(ind + "</" + draw(word) + ">")
            elif kind == 26:
                lines.append(ind + "</" + draw(word) + ">")
            else:
                k = draw(word)
                lines.append(ind + k + trail)
        if stack and draw(st.integers(0, 9)):
            while stack:
                lines.append("</" + stack.pop() + ">")
        text = "\n".join(lines)
        if draw(st.booleans()):
            text += "\n"
        return text

    return texts()
