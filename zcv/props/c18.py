"""C18 -- path, URL and file-object entry points reach the same resource, same result.

(a) Metamorphic: random directory layouts (<= 3 levels, file names over URL-neutral characters
incl. space and non-ASCII) holding a schema with 'extends' chains and <import src> across
directories and a configuration with nested %include across directories; the top resource is
named by absolute path, relative path (from several current directories), file: URL and open
file object (absolute- and relative-named): all must give the same schema / value tree.
References with a fragment identifier must be rejected.
(b) Reference model for url.urlnormalize / urldefrag / urljoin, BaseLoader.isPath and
normalizeURL on every string up to length 6/7 over {a C : / \\ # . f i l e}.
"""

import collections
import io
import itertools
import os
import shutil
import tempfile
import urllib.parse
from urllib.request import pathname2url

from zcv import digest, loadcheck
from zcv.core import Result, failure

ID = "C18"
LEVEL = "exploration"
RULE = ("(a) random layouts of <= 3 directory levels with file and directory names over letters, "
        "digits, space, - _ . ~ + & ; [ ] and non-ASCII letters; a schema with an extends chain "
        "and an <import src> whose targets lie in sibling/child/parent directories, a "
        "configuration with nested %include likewise; each loaded by absolute path, relative "
        "path, file: URL, absolute-named and relative-named open file object from current "
        "directories inside and outside the tree; plus fragment-carrying references. (b) every "
        "string of length <= 6 (quick) / 7 (thorough) over {a C : / \\\\ # . f i l e} through "
        "isPath, urlnormalize, urldefrag, normalizeURL and (as relative part against 5 bases) "
        "urljoin. Non-trivial = (a) a layout where a reference crosses a directory boundary "
        "and some name needs URL quoting; (b) a string containing ':'; distinct by layout / "
        "string.")
ASSUMPTIONS = [
    "(a) has no reference model: outcomes of the entry points are compared with each other",
    "(b) the references in this module are the trusted reading of the statement; for 'file://x' (exactly two slashes, U13) only 'result starts with file:///' is asserted",
    "file contents are \\n-only (U16); file names never contain '#', '?', '%' or control characters",
    "names used in a schema 'extends' attribute contain no blanks (the attribute is blank-separated)",
]
ALPHABET = "aC:/\\#.file"
ALL_EXHAUSTIVE = False

# ... including letters that Unicode normalisation would replace (OHM SIGN, ANGSTROM SIGN, a
# combining accent after its base letter): on this platform a file name is its code points
NAME_CHARS = "abXY01 -_.~+&;[]éü\u2126\u212b\u0301"


# ------------------------------------------------------------------ (b) string functions


def ref_ispath(s):
    if not s or s[0] not in "abcdefghijklmnopqrstuvwxyzABCDEFGHIJKLMNOPQRSTUVWXYZ":
        return True
    i = 1
    while i < len(s) and (s[i].isascii() and (s[i].isalnum() or s[i] in "+-.")):
        i += 1
    if i < len(s) and s[i] == ":":
        return (i + 1) == 2
    return True


def ref_urlnormalize(s):
    """-> ('exact', result) or ('prefix', 'file:///')"""
    lc = s.lower()
    if lc.startswith("file:/") and not lc.startswith("file:///"):
        if lc.startswith("file://"):
            return ("prefix", "file:///")          # U13
        return ("exact", "file://" + s[5:])
    return ("exact", s)


def _zurl():
    import ZConfig.url
    import ZConfig.loader
    return ZConfig.url, ZConfig.loader


BASES = ["file:///zcv/a/main.conf", "file:///d/", "http://h/p/q", "package:pkg:file.xml", ""]


def check_string(s, full=True):
    """-> [(sig, detail)]"""
    zurl, zloader = _zurl()
    import ZConfig
    out = []
    loader = _loader()
    # isPath
    try:
        got = bool(loader.isPath(s))
        if got != ref_ispath(s):
            out.append(("isPath:wrong", "isPath(%r) = %r" % (s, got)))
    except Exception as e:  # noqa
        out.append(("isPath:raises:%s" % type(e).__name__, repr(s)))
    # urlnormalize
    try:
        got = zurl.urlnormalize(s)
        want = ref_urlnormalize(s)
        if (want[0] == "exact" and got != want[1]) or (want[0] == "prefix" and not got.startswith(want[1])):
            out.append(("urlnormalize:wrong", "urlnormalize(%r) = %r, expected %r" % (s, got, want)))
        if got.lower().startswith("file:/") and not got.lower().startswith("file:///"):
            out.append(("urlnormalize:not-triple-slash", "urlnormalize(%r) = %r" % (s, got)))
    except Exception as e:  # noqa
        out.append(("urlnormalize:raises:%s" % type(e).__name__, repr(s)))
    # urldefrag
    try:
        u, frag = zurl.urldefrag(s)
        k = s.find("#")
        wantfrag = s[k + 1:] if k >= 0 else ""
        if frag != wantfrag:
            out.append(("urldefrag:wrong-fragment", "urldefrag(%r) = %r" % (s, (u, frag))))
        if "#" in u:
            out.append(("urldefrag:url-keeps-hash", "urldefrag(%r) = %r" % (s, (u, frag))))
        if k < 0:
            want = ref_urlnormalize(s)
            if (want[0] == "exact" and u != want[1]) or (want[0] == "prefix" and not u.startswith(want[1])):
                out.append(("urldefrag:not-normalised", "urldefrag(%r) = %r" % (s, (u, frag))))
        if u.lower().startswith("file:/") and not u.lower().startswith("file:///"):
            out.append(("urldefrag:not-triple-slash", "urldefrag(%r) = %r" % (s, (u, frag))))
    except Exception as e:  # noqa
        out.append(("urldefrag:raises:%s" % type(e).__name__, repr(s)))
    if not full:
        return out
    # urljoin
    for base in BASES:
        try:
            got = zurl.urljoin(base, s)
            want = urllib.parse.urljoin(base, s)
            if want.startswith("file:/") and not want.startswith("file:///"):
                want = "file://" + want[5:]
            if got != want:
                out.append(("urljoin:wrong", "urljoin(%r, %r) = %r expected %r" % (base, s, got, want)))
        except Exception as e:  # noqa
            try:
                urllib.parse.urljoin(base, s)
            except Exception:
                continue
            out.append(("urljoin:raises:%s" % type(e).__name__, "%r %r" % (base, s)))
    # normalizeURL
    if "\x00" not in s:
        k = s.find("#")
        try:
            got = loader.normalizeURL(s)
            if ref_ispath(s):
                if not got.startswith("file:///"):
                    out.append(("normalizeURL:path-not-file-url", "normalizeURL(%r) = %r" % (s, got)))
                want = "file://" + pathname2url(os.path.abspath(s))
                if got != want:
                    out.append(("normalizeURL:path-wrong", "normalizeURL(%r) = %r expected %r" % (s, got, want)))
            else:
                if k >= 0 and s[k + 1:]:
                    out.append(("normalizeURL:fragment-accepted", "normalizeURL(%r) = %r" % (s, got)))
                if "#" in got:
                    out.append(("normalizeURL:keeps-hash", "normalizeURL(%r) = %r" % (s, got)))
                if got.lower().startswith("file:/") and not got.lower().startswith("file:///"):
                    out.append(("normalizeURL:not-triple-slash", "normalizeURL(%r) = %r" % (s, got)))
        except ZConfig.ConfigurationError:
            if ref_ispath(s) or k < 0 or not s[k + 1:]:
                out.append(("normalizeURL:rejected", "normalizeURL(%r) raised ConfigurationError" % (s,)))
        except Exception as e:  # noqa
            out.append(("normalizeURL:raises:%s" % type(e).__name__, repr(s)))
    return out


_L = {}


def _loader():
    if "l" not in _L:
        zurl, zloader = _zurl()
        _L["l"] = zloader.SchemaLoader()
    return _L["l"]


# ------------------------------------------------------------------ (a) layouts


def gen_name(rng, ext, blanks=True):
    n = rng.randint(1, 6)
    chars = NAME_CHARS if blanks else NAME_CHARS.replace(" ", "")
    while True:
        s = "".join(rng.choice(chars) for _ in range(n))
        s = s.strip(" .")
        if not s or s in (".", ".."):
            continue
        if "  " in s:
            continue
        return s + ext


def gen_layout(rng):
    """-> dict describing directories and files (all relative to a root)."""
    d1 = gen_name(rng, "") if rng.random() > 0.1 else rng.choice(["~", "~x", "-d"])
    d2 = gen_name(rng, "")
    while d2 == d1:
        d2 = gen_name(rng, "")
    sib = gen_name(rng, "") + "x"
    while sib.lower() == d1.lower():
        sib = gen_name(rng, "") + "x"
    dirs = {"top": d1, "child": d1 + "/" + d2, "root": "", "sibling": sib}
    place = lambda: rng.choice(["top", "child", "root", "sibling"])  # noqa
    L = {"dirs": dirs}
    # schema: top.xml (in 'top') extends base1 (somewhere) which extends base2 (somewhere else);
    # imports types from a schema in yet another place
    L["schema"] = {"dir": "top", "name": gen_name(rng, ".xml")}
    L["base1"] = {"dir": place(), "name": gen_name(rng, ".xml", blanks=False)}
    L["base2"] = {"dir": place(), "name": gen_name(rng, ".xml", blanks=False)}
    L["types"] = {"dir": place(), "name": gen_name(rng, ".xml")}
    # the second entry of the top schema's 'extends' list: anywhere (each entry of the list is
    # relative to the schema that holds the list, not to its neighbour in the list)
    L["base3"] = {"dir": place() if rng.random() < 0.6 else "top", "name": gen_name(rng, ".xml", blanks=False)}
    L["conf"] = {"dir": "top", "name": gen_name(rng, ".conf")}
    # names that begin or end with a blank: only for the two resources that are named from
    # outside (references inside resources are stripped by the readers)
    for k in ("schema", "conf"):
        r = rng.random()
        if r < 0.15:
            L[k]["name"] = " " + L[k]["name"]
        elif r < 0.3:
            L[k]["name"] = L[k]["name"] + " "
        elif r < 0.35:
            L[k]["name"] = " " + L[k]["name"] + " "
    L["inc1"] = {"dir": place(), "name": gen_name(rng, ".conf")}
    L["inc2"] = {"dir": place(), "name": gen_name(rng, ".conf")}
    # a second include after the first one, in the main file and in the first included file:
    # each reference is relative to the file that contains it, whatever was included before
    L["inc3"] = {"dir": place(), "name": gen_name(rng, ".conf")}
    L["inc4"] = {"dir": place(), "name": gen_name(rng, ".conf")}
    # references may be written percent-encoded (the only way to name a file with a blank in an
    # 'extends' list)
    L["quoted"] = rng.random() < 0.5
    L["abs_include"] = not L["quoted"] and rng.random() < 0.5
    # the top schema and the base it extends each import "the same" relative name, which in the
    # two directories denotes two different files
    if rng.random() < 0.35:
        L["types"]["dir"] = "top"
        L["base1"]["dir"] = rng.choice(["child", "root", "sibling"])
        L["types2"] = {"dir": L["base1"]["dir"], "name": L["types"]["name"]}
    # 'extends' is a blank-separated list: keep blanks out of those two references (unless they
    # are written percent-encoded)
    if not L["quoted"] and any(c.isspace() for c in rel(L, "schema", "base1") + rel(L, "base1", "base2") + rel(L, "schema", "base3")):
        L["base1"]["dir"] = "top"
        L["base2"]["dir"] = "top"
        L["base3"]["dir"] = "top"
    # two files of one import graph whose names differ only in '+' versus blank
    plus_pair = "types2" not in L and rng.random() < 0.2
    if plus_pair:
        stem = gen_name(rng, "", blanks=False)
        L["types"]["name"] = stem + " t.xml"
        L["types2"] = {"dir": L["types"]["dir"], "name": stem + "+t.xml"}
    seen = set()
    for k in ("schema", "base1", "base2", "base3", "types", "conf", "inc1", "inc2", "inc3", "inc4"):
        key = (L[k]["dir"], L[k]["name"].lower())
        while key in seen:
            L[k]["name"] = "z" + L[k]["name"]
            key = (L[k]["dir"], L[k]["name"].lower())
        seen.add(key)
    if "types2" in L:
        key = (L["types2"]["dir"], L["types2"]["name"].lower())
        if key in seen or (L["base1"]["dir"] == "top" and not plus_pair) or (plus_pair and not L["types"]["name"].endswith(" t.xml")):
            del L["types2"]      # the name is taken in that directory
    # two bases in different directories that name THEIR base by the same reference text: the text
    # that leads from base1 to base2 leads from base3 to another file, base5
    if L["base3"]["dir"] != L["base1"]["dir"]:
        import posixpath
        target = posixpath.normpath(posixpath.join(L["dirs"][L["base3"]["dir"]] or ".", rel(L, "base1", "base2")))
        taken = set(posixpath.normpath(posixpath.join(L["dirs"][L[k]["dir"]] or ".", L[k]["name"])).lower()
                    for k in L if isinstance(L[k], dict) and "name" in L[k])
        if not target.startswith("..") and target.lower() not in taken:
            L["dirs"]["b5dir"] = posixpath.dirname(target)
            L["base5"] = {"dir": "b5dir", "name": posixpath.basename(target)}
    return L


def rel(L, frm, to):
    """Relative reference from the directory of file ``frm`` to file ``to`` (posix, unquoted)."""
    a = L["dirs"][L[frm]["dir"]]
    b = L["dirs"][L[to]["dir"]]
    ap = [p for p in a.split("/") if p]
    bp = [p for p in b.split("/") if p]
    i = 0
    while i < len(ap) and i < len(bp) and ap[i] == bp[i]:
        i += 1
    parts = [".."] * (len(ap) - i) + bp[i:] + [L[to]["name"]]
    return "/".join(parts)


def xml_attr(s):
    from xml.sax.saxutils import quoteattr
    return quoteattr(s)


def write_layout(root, L, frag=None):
    """frag: None or one of 'include', 'extends', 'src' -- put a #fragment on that reference."""
    def path(k):
        return os.path.join(root, *[p for p in (L["dirs"][L[k]["dir"]] + "/" + L[k]["name"]).split("/") if p])
    for d in L["dirs"].values():
        os.makedirs(os.path.join(root, *[p for p in d.split("/") if p]), exist_ok=True)
    f = lambda k: "#frag" if frag == k else ""  # noqa
    files = _layout_files(L, f, root)
    for k, text in files.items():
        with open(path(k), "w", encoding="utf-8", newline="\n") as fh:
            fh.write(text)
    return path("schema"), path("conf")


def qrel(L, a, b):
    r = rel(L, a, b)
    if L.get("quoted"):
        from urllib.parse import quote
        r = quote(r, safe="/~+&;[]-_.")
    return r


def _layout_files(L, f, root=None):
    rel = qrel  # noqa

    def again(frm, to):
        # the repeated includes are written as ABSOLUTE pathnames in half of the unquoted layouts
        if root is not None and L.get("abs_include"):
            return os.path.join(root, *[p for p in (L["dirs"][L[to]["dir"]] + "/" + L[to]["name"]).split("/") if p])
        return rel(L, frm, to)
    return {
        "base2": '<schema>\n  <key name="b2" default="two"/>\n</schema>\n',
        "base1": '<schema extends=%s>\n%s  <key name="b1" default="one"/>\n</schema>\n'
                 % (xml_attr(rel(L, "base1", "base2") + f("extends2")),
                    ('  <import src=%s/>\n  <multisection type="ts2" name="*" attribute="secs2"/>\n'
                     % xml_attr(rel(L, "base1", "types2"))) if "types2" in L else ""),
        "types": '<schema>\n  <sectiontype name="ts"><key name="k" datatype="integer"/></sectiontype>\n</schema>\n',
        "base3": '<schema%s>\n  <key name="b3" default="three"/>\n</schema>\n'
                 % ((" extends=" + xml_attr(rel(L, "base1", "base2"))) if "base5" in L else ""),
        **({"base5": '<schema>\n  <key name="b5" default="five"/>\n</schema>\n'} if "base5" in L else {}),
        **({"types2": '<schema>\n  <sectiontype name="ts2"><key name="k2" datatype="integer" default="5"/></sectiontype>\n</schema>\n'}
           if "types2" in L else {}),
        "schema": '<schema extends=%s>\n  <import src=%s/>\n  <multisection type="ts" name="*" attribute="secs"/>\n'
                  '  <multikey name="m" attribute="m"/>\n</schema>\n'
                  % (xml_attr(rel(L, "schema", "base1") + f("extends") + f("extends-twice")
                              # one base named twice, the fragment on the first of the two spellings
                              + ((" " + rel(L, "schema", "base1")) if f("extends-twice") else "")
                              + " " + rel(L, "schema", "base3") + f("extends-last")),
                     xml_attr(rel(L, "schema", "types") + f("src"))),
        "inc2": "m from-inc2\n<ts deep>\n k 3\n</ts>\n",
        "inc4": "m from-inc4\n",
        "inc3": "m from-inc3\n",
        "inc1": "m from-inc1\n%%include %s%s\nb1 changed\n%%include %s\n" % (rel(L, "inc1", "inc2"), f("include2"), rel(L, "inc1", "inc4")),
        "conf": "m first\n<ts a>\n  k 1\n</ts>\n%%include %s%s\n%%include %s\nm last\n%%include %s\n%%include %s\n"
                % (rel(L, "conf", "inc1"), f("include"), rel(L, "conf", "inc3"),
                   # a file may be included any number of times: the same one again, and one that an
                   # included file has included already
                   again("conf", "inc3"), again("conf", "inc4")),
    }


def crosses(L):
    return any(L[k]["dir"] != "top" for k in ("base1", "types", "inc1")) or L["base2"]["dir"] != L["base1"]["dir"] \
        or L["inc2"]["dir"] != L["inc1"]["dir"]


def needs_quoting(L):
    names = [L[k]["name"] for k in ("schema", "base1", "base2", "types", "conf", "inc1", "inc2")] + list(L["dirs"].values())
    return any(pathname2url(n) != n for n in names)


def entry_points(path, cwds):
    """-> list of (label, cwd, callable(kind) -> result) ; kind in schema/config"""
    eps = [("abspath", None, path), ("url", None, "file://" + pathname2url(path)),
           ("url-one-slash", None, "file:" + pathname2url(path))]
    for c in cwds:
        eps.append(("relpath", c, os.path.relpath(path, c)))
        eps.append(("relfile", c, ("file", os.path.relpath(path, c))))
    eps.append(("absfile", None, ("file", path)))
    # a file object opened in binary mode also "has a name" (schemas only: the XML reader takes
    # bytes, the configuration reader needs text)
    eps.append(("absfile-binary", None, ("fileb", path)))
    eps.append(("relfile-binary", cwds[-1], ("fileb", os.path.relpath(path, cwds[-1]))))
    # the loader behind the zconfig_schema2html command and the Sphinx directive (schemas only)
    eps.append(("tool-abspath", None, ("tool", path)))
    eps.append(("tool-relpath", cwds[0], ("tool", os.path.relpath(path, cwds[0]))))
    eps.append(("tool-relpath", cwds[-1], ("tool", os.path.relpath(path, cwds[-1]))))
    return eps


def load_via(kind, schema, ep):
    import ZConfig
    label, cwd, what = ep
    old = os.getcwd()
    if cwd:
        os.chdir(cwd)
    try:
        try:
            if isinstance(what, tuple) and what[0] == "tool":
                if kind != "schema":
                    return ("skip",)
                import ZConfig._schema_utils
                r = ZConfig._schema_utils.load_schema(what[1])
            elif isinstance(what, tuple) and what[0] == "fileb":
                if kind != "schema":
                    return ("skip",)
                with open(what[1], "rb") as fh:
                    r = ZConfig.loadSchemaFile(fh)
            elif isinstance(what, tuple):
                with open(what[1], encoding="utf-8") as fh:
                    r = ZConfig.loadSchemaFile(fh) if kind == "schema" else ZConfig.loadConfigFile(schema, fh)
            else:
                r = ZConfig.loadSchema(what) if kind == "schema" else ZConfig.loadConfig(schema, what)
        except ZConfig.ConfigurationError as e:
            return ("reject", type(e).__name__, getattr(e, "url", None), str(e)[:200])
        except Exception as e:  # noqa
            return ("internal", type(e).__name__, str(e)[:200])
        if kind == "schema":
            return ("ok", digest.schema_digest(r), r.url, r)
        return ("ok", digest.digest(r[0]), None, None)
    finally:
        os.chdir(old)


def check_layout(L, frag=None):
    out = []
    root = tempfile.mkdtemp(prefix="zcv-c18-")
    root = os.path.realpath(root)
    outside = tempfile.mkdtemp(prefix="zcv-c18o-")
    try:
        spath, cpath = write_layout(root, L, frag)
        cwds = [root, os.path.dirname(spath), os.path.join(root, *[p for p in L["dirs"]["child"].split("/") if p]), outside]
        results = []
        schema = None
        for ep in entry_points(spath, cwds):
            r = load_via("schema", None, ep)
            results.append((ep[0], ep[1], r))
            if r[0] == "ok" and schema is None:
                schema = r[3]
        first = results[0][2]
        for label, cwd, r in results:
            if r[0] == "internal":
                out.append(("schema:%s:internal:%s" % (label, r[1]), r[2]))
            elif r[0] != first[0]:
                out.append(("schema:%s-differs-from-abspath:%s-vs-%s" % (label, r[0], first[0]), "cwd %s: %r" % (_rel(cwd, root), r[1:3] if r[0] != "ok" else "")))
            elif r[0] == "ok":
                d = digest.first_diff(first[1], r[1])
                if d:
                    out.append(("schema:%s-differs-from-abspath:digest" % label, d))
                if not (r[2] or "").startswith("file:///"):
                    out.append(("schema:url-not-file-triple-slash:%s" % label, repr(r[2])))
            elif r[0] == "reject" and r[2] and str(r[2]).lower().startswith("file:") and not str(r[2]).startswith("file:///"):
                out.append(("schema:error-url-not-normalised:%s" % label, repr(r[2])))
        if frag is None and first[0] == "ok":
            out.extend(same_relative_name_probe(root, L, spath))
        if frag in ("extends", "extends2", "extends-last", "extends-twice", "src"):
            if first[0] == "ok":
                out.append(("fragment-accepted:%s" % frag, "schema loaded although the %s reference carries '#frag'" % frag))
            return out
        if frag is None and first[0] != "ok":
            out.append(("layout-schema-rejected", repr(first[1:])))
            return out
        if schema is None:
            return out
        cres = []
        for ep in entry_points(cpath, cwds):
            r = load_via("config", schema, ep)
            if r[0] != "skip":
                cres.append((ep[0], ep[1], r))
        cfirst = cres[0][2]
        for label, cwd, r in cres:
            if r[0] == "internal":
                out.append(("config:%s:internal:%s" % (label, r[1]), r[2]))
            elif r[0] != cfirst[0]:
                out.append(("config:%s-differs-from-abspath:%s-vs-%s" % (label, r[0], cfirst[0]), "cwd %s: %r" % (_rel(cwd, root), r[1:])))
            elif r[0] == "ok":
                d = digest.first_diff(cfirst[1], r[1])
                if d:
                    out.append(("config:%s-differs-from-abspath:digest" % label, d))
            elif r[0] == "reject" and r[2] and str(r[2]).lower().startswith("file:") and not str(r[2]).startswith("file:///"):
                out.append(("config:error-url-not-normalised:%s" % label, repr(r[2])))
        if frag in ("include", "include2"):
            if cfirst[0] == "ok":
                out.append(("fragment-accepted:%s" % frag, "configuration loaded although %%include carries '#frag'"))
        elif frag == "top":
            import ZConfig
            for what, fn in (("schema", lambda: ZConfig.loadSchema("file://" + pathname2url(spath) + "#frag")),
                             ("config", lambda: ZConfig.loadConfig(schema, "file://" + pathname2url(cpath) + "#frag"))):
                try:
                    fn()
                    out.append(("fragment-accepted:top-%s" % what, ""))
                except ZConfig.ConfigurationError:
                    pass
                except Exception as e:  # noqa
                    out.append(("fragment:top-%s:internal:%s" % (what, type(e).__name__), str(e)[:200]))
        elif cfirst[0] != "ok":
            out.append(("layout-config-rejected", repr(cfirst[1:])))
        else:
            out.extend(same_relative_config_probe(root, L, cpath, schema))
            out.extend(missing_include_probe(root, L, cpath, schema))
            want_m = ["first", "from-inc1", "from-inc2", "from-inc4", "from-inc3", "last", "from-inc3", "from-inc4"]
            got = cfirst[1]["attrs"].get("m")
            if got != want_m or cfirst[1]["attrs"].get("b1") != "changed" or cfirst[1]["attrs"].get("b2") != "two" \
                    or cfirst[1]["attrs"].get("b3") != "three" or ("base5" in L and cfirst[1]["attrs"].get("b5") != "five"):
                out.append(("layout-config-wrong-content", repr(cfirst[1]["attrs"])[:300]))
    finally:
        shutil.rmtree(root, ignore_errors=True)
        shutil.rmtree(outside, ignore_errors=True)
    return out


def same_relative_name_probe(root, L, spath):
    """A long-lived SchemaLoader is asked for the same relative name from two directories that
    hold different schemas; each answer must be the schema of the file that name denotes there."""
    import ZConfig
    import ZConfig.loader
    out = []
    name = os.path.basename(spath)
    other_dir = os.path.join(root, "zcv-decoy-dir")
    os.makedirs(other_dir, exist_ok=True)
    decoy = os.path.join(other_dir, name)
    with open(decoy, "w", encoding="utf-8") as fh:
        fh.write('<schema>\n  <key name="decoy" default="yes"/>\n</schema>\n')
    loader = ZConfig.loader.SchemaLoader()
    old = os.getcwd()
    try:
        seen = []
        for d, want_decoy in ((os.path.dirname(spath), False), (other_dir, True), (os.path.dirname(spath), False)):
            os.chdir(d)
            try:
                sch = loader.loadURL(name)
            except Exception as e:  # noqa
                out.append(("shared-loader:relative-name-fails", "%s in %s: %r" % (name, _rel(d, root), e)))
                continue
            has_decoy = any(k == "decoy" for k, _ci in sch)
            if has_decoy != want_decoy:
                out.append(("shared-loader:relative-name-resolved-in-wrong-directory",
                            "loadURL(%r) from %s returned the schema of another directory" % (name, _rel(d, root))))
    finally:
        os.chdir(old)
        os.remove(decoy)
    return out


def missing_include_probe(root, L, cpath, schema):
    """The file that inc1 includes is taken away from where inc1's reference points, and put where
    the SAME reference text would lead from the top file's directory: a reference is relative to
    the resource that contains it, so the load must fail now, whichever way the top file is named."""
    import ZConfig

    def real(k):
        return os.path.join(root, *[p for p in (L["dirs"][L[k]["dir"]] + "/" + L[k]["name"]).split("/") if p])
    ref = rel(L, "inc1", "inc2")
    src = real("inc2")
    dst = os.path.normpath(os.path.join(os.path.dirname(cpath), *ref.split("/")))
    if L.get("quoted") or dst == os.path.normpath(src) or os.path.exists(dst) or not dst.startswith(os.path.normpath(root) + os.sep):
        return []
    out = []
    os.makedirs(os.path.dirname(dst), exist_ok=True)
    os.rename(src, dst)
    old = os.getcwd()
    try:
        os.chdir(os.path.dirname(cpath))
        for how, arg in (("abspath", cpath), ("relpath", os.path.basename(cpath)), ("url", "file://" + pathname2url(cpath))):
            try:
                ZConfig.loadConfig(schema, arg)
                out.append(("include-resolved-against-the-top-file:%s" % how,
                            "%%include %s inside %s was satisfied by a file next to the top file" % (ref, L["inc1"]["name"])))
            except ZConfig.ConfigurationError:
                pass
            except Exception as e:  # noqa
                out.append(("missing-include:internal:%s" % type(e).__name__, str(e)[:200]))
    finally:
        os.chdir(old)
        os.rename(dst, src)
    return out


def same_relative_config_probe(root, L, cpath, schema):
    """The same relative configuration name, loaded from two current directories that hold
    different files (entry points loadConfig and loadConfigFile): each load reads -- and, when it
    fails, names -- the file of ITS directory."""
    import ZConfig
    out = []
    name = os.path.basename(cpath)
    other_dir = os.path.join(root, "zcv-decoy-conf")
    os.makedirs(other_dir, exist_ok=True)
    decoy = os.path.join(other_dir, name)
    with open(decoy, "w", encoding="utf-8") as fh:
        fh.write("m decoy\nnosuchkey here\n")
    old = os.getcwd()
    try:
        for d, want_decoy in ((os.path.dirname(cpath), False), (other_dir, True), (os.path.dirname(cpath), False)):
            os.chdir(d)
            for how in ("loadConfig", "loadConfigFile"):
                try:
                    if how == "loadConfig":
                        cfg, _h = ZConfig.loadConfig(schema, name)
                    else:
                        with open(name, encoding="utf-8") as fh:
                            cfg, _h = ZConfig.loadConfigFile(schema, fh)
                    got = ("ok", list(cfg.m))
                except ZConfig.ConfigurationError as e:
                    got = ("reject", getattr(e, "url", None), getattr(e, "lineno", None))
                except Exception as e:  # noqa
                    out.append(("relative-config:internal:%s" % type(e).__name__, str(e)[:200]))
                    continue
                if want_decoy:
                    url = got[1] if got[0] == "reject" else None
                    if got[0] != "reject" or got[2] != 2 or not str(url).endswith("/zcv-decoy-conf/" + pathname2url(name)):
                        out.append(("relative-config-resolved-in-wrong-directory",
                                    "%s(%r) from the decoy directory: %r" % (how, name, got)))
                elif got[0] != "ok" or got[1][:1] != ["first"]:
                    out.append(("relative-config-resolved-in-wrong-directory",
                                "%s(%r) from its own directory: %r" % (how, name, got)))
    finally:
        os.chdir(old)
        os.remove(decoy)
    return out


def _rel(cwd, root):
    if not cwd:
        return "-"
    return os.path.relpath(cwd, root) if cwd.startswith(root) else "<outside>"


# ------------------------------------------------------------------ plumbing


def evaluate(case):
    if case.get("kind") == "layout":
        L = case["layout"]
        if "base3" not in L or "inc4" not in L:
            return []
        for k in ("schema", "base1", "base2", "base3", "types", "conf", "inc1", "inc2", "inc3", "inc4"):
            n = L[k]["name"]
            if not n or "/" in n or n in (".", "..") or any(c in n for c in "#?%\x00\n\r\\") \
                    or (n != n.strip() and k not in ("schema", "conf")) or not n.strip():
                return []
        for d in L["dirs"].values():
            for part_ in d.split("/"):
                if part_ in (".", "..") or any(c in part_ for c in "#?%\x00\n\r\\") or part_ != part_.strip():
                    return []
        if len(set(L["dirs"].values())) < 4 or not L["dirs"]["top"] or not L["dirs"]["child"].startswith(L["dirs"]["top"] + "/"):
            return []
        if any(c.isspace() for c in rel(L, "schema", "base1") + rel(L, "base1", "base2")):
            return []
        keys = [(L[k]["dir"], L[k]["name"].lower()) for k in ("schema", "base1", "base2", "base3", "types", "conf", "inc1", "inc2")]
        if len(set(keys)) < 8 or any(c.isspace() for c in L["base3"]["name"]):
            return []
        try:
            fl = check_layout(L, case.get("frag"))
        except OSError:
            return []
        return [failure(sig, case, d) for sig, d in fl]
    return [failure(sig, case, d) for sig, d in check_string(case["s"])]


SHRINK_SKIP = {"dirs", "dir"}


def shards(tier, seed):
    thorough = tier == "thorough"
    specs = []
    n = 7 if thorough else 6
    for a in ALPHABET:
        for b in ALPHABET:
            specs.append({"kind": "strings", "prefix": a + b, "len": n})
    specs.append({"kind": "short"})
    per = 400 if thorough else 40
    for i in range(16):
        specs.append({"kind": "layouts", "seed": seed, "lo": i * per, "hi": (i + 1) * per})
    return specs


def run_shard(spec):
    res = Result()
    if spec["kind"] == "short":
        cased = []
        for tail in (":", ":/", ":a", ":/a", ":/a/b.c", "://", ":///", ":///a", ":/C:/a", ":/a#f", ":a#f", ":/#", "://h/a"):
            for scheme in ("FILE", "File", "fILE", "filE", "FiLe", "HTTP", "Http"):
                cased.append(scheme + tail)
        for s in [""] + list(ALPHABET) + cased:
            res.evaluations += 1
            if ":" in s:
                res.nontrivial()
            for sig, d in check_string(s):
                res.fail(sig, {"kind": "string", "s": s}, d)
        return res
    if spec["kind"] == "strings":
        pre = spec["prefix"]
        full_len = spec["len"] - 1
        for n in range(0, spec["len"] - 1):
            for tail in itertools.product(ALPHABET, repeat=n):
                s = pre + "".join(tail)
                res.evaluations += 1
                if ":" in s:
                    res.nontrivial()
                for sig, d in check_string(s, full=len(s) <= full_len):
                    res.fail(sig, {"kind": "string", "s": s}, d)
        if pre == ALPHABET[0] * 2:
            res.exhaustive_parts.append("isPath/urlnormalize/urldefrag on all strings of length <= %d, urljoin (5 bases) and normalizeURL on all of length <= %d, over %r"
                                        % (spec["len"], full_len, ALPHABET))
            res.sample({"kind": "string", "s": "C:/a#.f"})
        return res
    counters = collections.Counter()
    for i in range(spec["lo"], spec["hi"]):
        rng = loadcheck.case_rng(spec["seed"] + 1818, i)
        L = gen_layout(rng)
        frag = rng.choice([None, None, None, None, "include", "include2", "extends", "extends2", "extends-last", "extends-twice", "src", "top"])
        res.evaluations += 1
        try:
            fl = check_layout(L, frag)
        except OSError as e:
            counters["layout-not-writable:%s" % type(e).__name__] += 1
            continue
        counters["frag:%s" % frag] += 1
        if crosses(L) and needs_quoting(L):
            res.nontrivial(key=[L, frag])
            if len(res.samples) < 1 and frag is None:
                res.sample({"kind": "layout", "layout": L})
        for sig, d in fl:
            res.fail(sig, {"kind": "layout", "layout": L, "frag": frag}, d)
    res.counters.update(counters)
    return res


def check_coverage(tier, c):
    problems = []
    if c.get("frag:None", 0) < 50:
        problems.append("fewer than 50 fragment-free layouts")
    return problems
