"""C09 -- every standard datatype is a total function honouring its documented contract.

Oracle: zcv.refdt (hand-written from docs/standard-datatypes.rst, no regular expressions,
no ZConfig imports).  Every string must give the reference value or ValueError (timedelta:
TypeError allowed for an unknown unit letter).  Key-normalising converters are idempotent.
"""

import copy
import itertools
import os
import shutil
import socket
import tempfile
import zlib

from zcv import refdt
from zcv.core import Result, failure

ID = "C09"
LEVEL = "exploration"
RULE = ("per stock datatype: every string up to a per-type length bound over a per-type "
        "alphabet of class representatives (exhaustive), boundary lists (ports, 19^4 dotted "
        "quads from boundary octets, boolean letter-case variants), Hypothesis strings built "
        "from each type's grammar (accepted strings up to length 200) with all their "
        "one-edit neighbours, structured IPv6 / host:port forms, and Hypothesis full-Unicode "
        "text. Non-trivial = string the reference accepts, or a one-edit neighbour of an "
        "accepted grammar string; distinct by (type, string) -- enumerated strings are "
        "distinct by construction, generated ones are counted by hash.")
ASSUMPTIONS = [
    "zcv/refdt.py is the trusted statement of the documented contracts",
    "float is compared with the language's float(); inf/nan not asserted (zone U9)",
    "zones not compared: single-character host names and strings on which ipaddress/inet_pton/the hand-written RFC 4291 recogniser disagree (U10), non-ASCII decimal digits in ipaddr-or-hostname, non-ASCII characters whose lower-casing is ASCII (KELVIN SIGN), a timedelta unit given twice",
    "'strings of every length' for the regular-expression based types is approached by exhaustive enumeration to the stated bound plus generated accepted strings up to length 200 with all one-edit neighbours; it is not a proof of language equivalence",
    "existing-* are run against a fixed temporary tree; locale only on C/POSIX/''/invalid names",
]
ALL_EXHAUSTIVE = False

U2003 = " "
EACUTE = "é"

# type -> (alphabet, quick bound, thorough bound)
ENUM = {
    "basic-key": ("aZ1-._ " + EACUTE + "\n", 5, 6),
    "identifier": ("aZ1_.-" + EACUTE + "\n", 5, 7),
    "dotted-name": ("aZ1_.-" + EACUTE, 6, 7),
    "dotted-suffix": ("aZ1_.-" + EACUTE, 6, 7),
    "boolean": "yesnotrufalYEOF ",
    "integer": ("019-+ _a." + "٣", 5, 6),
    "port-number": ("013569-+ _", 5, 6),
    "byte-size": ("012kKmMgbB- s", 5, 6),
    "time-interval": ("012sSmhHdD- k", 5, 6),
    "timedelta": ("12.wdhms -ex", 5, 6),
    "float": ("01.e-+ninfa_", 5, 6),
    "string-list": ("a b\t" + U2003 + "\n", 6, 8),
    "inet-address": ("aB1:[]. -", 5, 6),
    "inet-binding-address": ("aB1:[]. -", 5, 6),
    "inet-connection-address": ("aB1:[]. -", 5, 6),
    "socket-address": ("aB1:[]./", 5, 6),
    "socket-binding-address": ("aB1:[]./", 4, 5),
    "socket-connection-address": ("aB1:[]./", 4, 5),
    "ipaddr-or-hostname": ("afG125:.-_", 5, 7),
    "string": ("a $" + EACUTE, 4, 5),
    "null": ("a $" + EACUTE, 4, 5),
}
ENUM["boolean"] = ("yesnotrufalYEOF ", 5, 5)

OCTETS = ["", "0", "9", "00", "09", "10", "99", "000", "099", "100", "199", "200", "249",
          "250", "255", "256", "260", "300", "1000"]
PORTS = ["-1", "0", "1", "65534", "65535", "65536", "65537", "99999", "0065535", "+65535",
         " 80", "80 ", "8_0", "_80", "80_", "8__0", "0x50", "80.0", "1e3", "", " ", "+", "-",
         "-0", "+0", "٨٠", "655_35", "65_536"]


def _mods():
    import ZConfig.datatypes as dt
    return dt


_FAM = {}


def _famname(f):
    if not _FAM:
        for n in ("AF_UNIX", "AF_INET", "AF_INET6"):
            if hasattr(socket, n):
                _FAM[getattr(socket, n)] = n
    return _FAM.get(f, repr(f))


def normalise(name, v):
    if name.startswith("socket-"):
        return (_famname(v.family), v.address)
    return v


def same(a, b):
    return type(a) is type(b) and (a == b or (a != a and b != b))


_CONV = {}


def conv_for(name):
    c = _CONV.get(name)
    if c is None:
        dt = _mods()
        c = _CONV[name] = dt.Registry().get(name)
    return c


_SCHEMAS = {}


def through_schema(name, s):
    """The same conversion reached through a schema: <key name='k' datatype=NAME/> and the text
    'k <s>'.  -> ('ok', value) | ('err', exception type name, is a DataConversionError)"""
    import io
    import ZConfig
    sch = _SCHEMAS.get(name)
    if sch is None:
        sch = _SCHEMAS[name] = ZConfig.loadSchemaFile(io.StringIO('<schema><key name="k" datatype="%s"/></schema>' % name))
    try:
        cfg, _ = ZConfig.loadConfigFile(sch, io.StringIO("k " + s + "\n"))
        return ("ok", normalise(name, cfg.k))
    except ZConfig.DataConversionError as e:
        return ("err", type(e.exception).__name__ if isinstance(getattr(e, "exception", None), BaseException) else "?", True)
    except BaseException as e:  # noqa
        return ("err", type(e).__name__, False)


def writable_in_a_text(s):
    return bool(s) and s == s.strip() and "$" not in s and not any(c.isspace() and c not in " \t" for c in s) \
        and not any(c in s for c in "\x85\u2028\u2029\x1c\x1d\x1e\x1f")


def check(name, s):
    """-> (ref outcome kind, [(sig, detail)])"""
    ref = refdt.REF[name](s)
    conv = conv_for(name)
    try:
        raw = conv(s)
        v = normalise(name, raw)
        got = ("ok", v)
    except ValueError:
        got = ("err", "ValueError")
    except BaseException as e:  # noqa
        got = ("err", type(e).__name__)
    extra = []
    if got[0] == "ok" and isinstance(raw, (list, dict, set)):
        # what the application does with the value it received is its own business
        keep = copy.deepcopy(raw)
        got = ("ok", copy.deepcopy(v))
        if isinstance(raw, list):
            raw.append("zcv-mutated")
            raw.reverse()
        else:
            raw.clear()
        try:
            again = conv(s)
            if again != keep:
                extra.append(("%s:result-shared-between-conversions" % name, "%r -> %r after the first result was changed in place" % (s, again)))
        except BaseException as e:  # noqa
            extra.append(("%s:result-shared-between-conversions" % name, "%r -> %s" % (s, type(e).__name__)))
    if zlib.crc32((name + "\0" + s).encode("utf-8", "surrogatepass")) % 64 == 0 and writable_in_a_text(s) \
            and not name.startswith("existing-") and name != "locale":
        via = through_schema(name, s)
        if got[0] == "ok":
            if via[0] != "ok" or not same(via[1], got[1]):
                extra.append(("%s:differs-through-a-schema" % name, "%r -> %r directly, %r as the value of a key" % (s, got[1], via[1:])))
        elif got[1] == "ValueError":
            if via[0] != "err" or not via[2]:
                extra.append(("%s:differs-through-a-schema" % name, "%r -> ValueError directly, %r as the value of a key" % (s, via)))
        elif via[0] != "err" or via[2] or via[1] != got[1]:
            # an exception that is not a ValueError is the datatype's own and passes through
            extra.append(("%s:differs-through-a-schema" % name, "%r -> %s directly, %r as the value of a key" % (s, got[1], via)))
    if extra:
        return ref[0], extra
    if ref[0] == "unspec":
        if got[0] == "err" and got[1] not in (("ValueError", "TypeError") if name == "timedelta" else ("ValueError",)):
            return ref[0], [("%s:wrong-exception:%s" % (name, got[1]), "%r -> %s" % (s, got[1]))]
        return ref[0], []
    out = []
    if ref[0] == "ok":
        if got[0] != "ok":
            out.append(("%s:rejected-but-contract-accepts" % name,
                        "%r -> %s, expected %r" % (s, got[1], ref[1])))
        elif not same(got[1], ref[1]):
            out.append(("%s:wrong-value" % name, "%r -> %r, expected %r" % (s, got[1], ref[1])))
        elif name in refdt.IDEMPOTENT:
            try:
                again = conv(got[1])
                if again != got[1]:
                    out.append(("%s:not-idempotent" % name, "%r -> %r -> %r" % (s, got[1], again)))
            except BaseException as e:  # noqa
                out.append(("%s:not-idempotent" % name, "%r -> %r -> %r" % (s, got[1], e)))
    else:
        if got[0] == "ok":
            out.append(("%s:accepted-but-contract-rejects" % name, "%r -> %r" % (s, got[1])))
        else:
            allowed = ("ValueError", "TypeError") if len(ref) > 1 else ("ValueError",)
            if got[1] not in allowed:
                out.append(("%s:wrong-exception:%s" % (name, got[1]), "%r -> %s" % (s, got[1])))
    return ref[0], out


def evaluate(case):
    if case.get("kind") == "fs":
        return _fs_checks()
    if case.get("kind") == "registry":
        r = Result()
        _run_registry(r)
        return list(r.failures)
    return [failure(sig, case, d) for sig, d in check(case["type"], case["s"])[1]]


# ------------------------------------------------------------------ shards


# long strings over tiny alphabets (the regular-expression based types): every string up to
# length 12..16 -- far beyond the number of states of any automaton for these languages
LONG = {
    "basic-key": ("a1-", 10, 12),
    "identifier": ("a1_", 10, 12),
    "dotted-name": ("a.", 14, 16),
    "dotted-suffix": ("a.", 14, 16),
    "ipaddr-or-hostname": ("a.-", 10, 12),
    "boolean": ("onf", 8, 9),
}


def shards(tier, seed):
    specs = []
    thorough = tier == "thorough"
    for name, (alpha, q, t) in sorted(LONG.items()):
        for first in alpha:
            specs.append({"kind": "enum", "type": name, "alpha": alpha, "bound": t if thorough else q,
                          "first": first})
    for name, (alpha, q, t) in sorted(ENUM.items()):
        bound = t if thorough else q
        for first in alpha:
            specs.append({"kind": "enum", "type": name, "alpha": alpha, "bound": bound,
                          "first": first})
    specs.append({"kind": "lists"})
    for a in OCTETS:
        specs.append({"kind": "quads", "first": a})
    specs.append({"kind": "fs"})
    n = 16
    per = 4000 if thorough else 250
    for i in range(n):
        specs.append({"kind": "grammar", "seed": seed * 1000 + i, "examples": per})
        specs.append({"kind": "unicode", "seed": seed * 1000 + 500 + i, "examples": per})
    # big ones first
    specs.sort(key=lambda s: -(len(s.get("alpha", "")) ** s.get("bound", 3)))
    specs.insert(0, {"kind": "atheris", "seed": seed, "runs": 40000 if not thorough else 2000000})
    return specs


def run_shard(spec):
    res = Result()
    kind = spec["kind"]
    if kind == "enum":
        _run_enum(res, spec)
    elif kind == "lists":
        _run_lists(res)
    elif kind == "quads":
        _run_quads(res, spec)
    elif kind == "fs":
        res.evaluations += 1
        fl = _fs_checks(res)
        res.extend(fl)
    elif kind == "grammar":
        _run_grammar(res, spec)
    elif kind == "unicode":
        _run_unicode(res, spec)
    elif kind == "atheris":
        import sys
        from zcv import fuzzrun
        fuzzrun.run(res, sys.modules[__name__], ID, spec["runs"], spec["seed"], max_len=48, timeout=1500)
    return res


def _one(res, name, s, nontrivial_by_hash=False, force_nontrivial=False):
    res.evaluations += 1
    kind, fl = check(name, s)
    res.count("%s:%s" % (name, kind))
    if kind == "ok" or force_nontrivial:
        if nontrivial_by_hash:
            res.nontrivial(key=name + "\0" + s)
        else:
            res.nontrivial()
    for sig, d in fl:
        res.fail(sig, {"type": name, "s": s}, d)
    return kind


def _run_enum(res, spec):
    name, alpha, bound, first = spec["type"], spec["alpha"], spec["bound"], spec["first"]
    if first == alpha[0]:
        _one(res, name, "")
    nsamp = 0
    for n in range(0, bound):
        for tail in itertools.product(alpha, repeat=n):
            s = first + "".join(tail)
            k = _one(res, name, s)
            if k == "ok" and nsamp < 1 and n >= 2:
                nsamp += 1
                res.sample({"type": name, "s": s, "reference": repr(refdt.REF[name](s))})
    if first == alpha[0]:
        res.exhaustive_parts.append("%s: all strings of length <= %d over %r"
                                    % (name, bound, alpha))


def _case_variants(w):
    for bits in itertools.product((0, 1), repeat=len(w)):
        yield "".join(c.upper() if b else c for c, b in zip(w, bits))


def confusables():
    """ASCII letter -> non-ASCII characters that some case mapping (lower, upper, casefold,
    NFKC) turns into that letter: U+017F long s, U+212A KELVIN SIGN, U+0131 dotless i, ligatures."""
    import unicodedata
    out = {}
    for cp in range(128, 0x3000):
        ch = chr(cp)
        forms = {ch.lower(), ch.upper().lower(), ch.casefold(), unicodedata.normalize("NFKC", ch).lower(),
                 unicodedata.normalize("NFKC", ch).casefold()}
        for f in forms:
            if f and f.isascii() and f.isalnum() and len(f) <= 2:
                out.setdefault(f, set()).add(ch)
    return out


def confusable_variants(word, table, limit=40):
    res = []
    for i in range(len(word)):
        for width in (1, 2):
            piece = word[i:i + width].lower()
            for ch in sorted(table.get(piece, ()))[:6]:
                res.append(word[:i] + ch + word[i + width:])
    return res[:limit]


def _run_confusables(res):
    table = confusables()
    words = {
        "boolean": ["yes", "true", "on", "no", "false", "off", "YES", "False"],
        "byte-size": ["1kb", "2MB", "3gb"],
        "time-interval": ["1s", "2m", "3h", "4d"],
        "basic-key": ["ask", "a1s", "ki"],
        "identifier": ["ask", "_s1"],
        "dotted-name": ["a.ks", "s.i"],
        "dotted-suffix": [".ks", "s.k"],
        "ipaddr-or-hostname": ["ask.si", "fe80::1", "1.2.3.4"],
        "integer": ["12", "-1"],
        "port-number": ["80", "1"],
        "inet-address": ["host:80", "sk"],
        "socket-address": ["host:80"],
        "timedelta": ["1s", "2h", "3w"],
        "float": ["1e3", "inf"],
    }
    for name, ws in words.items():
        for w in ws:
            for v in confusable_variants(w, table):
                _one(res, name, v, nontrivial_by_hash=True, force_nontrivial=True)
    res.exhaustive_parts.append("accepted words with one letter replaced by each non-ASCII character whose case mapping yields that letter")


def _run_registry(res):
    """The registry finds a stock datatype under every letter-case spelling of its name (names
    without a dot are looked up as basic-keys) and hands out the same conversion every time."""
    dt = _mods()
    reg = dt.Registry()
    for name in sorted(dt.stock_datatypes):
        base = reg.get(name)
        for variant in {name.upper(), name.title(), name.swapcase(), name}:
            res.evaluations += 1
            res.nontrivial()
            try:
                got = reg.get(variant)
            except Exception as e:  # noqa
                res.fail("registry:lookup-raises", {"kind": "registry", "s": variant}, "%s: %r" % (variant, e))
                continue
            if got is not base:
                res.fail("registry:case-variant-gives-another-conversion", {"kind": "registry", "s": variant}, variant)
        if dt.Registry().get(name) is not dt.stock_datatypes[name]:
            res.fail("registry:not-the-stock-conversion", {"kind": "registry", "s": name}, name)
    for bad in ("no-such-type", "basic key", "1key", ""):
        res.evaluations += 1
        try:
            reg.get(bad)
        except Exception:  # noqa
            continue
        res.fail("registry:unknown-name-found", {"kind": "registry", "s": bad}, repr(bad))


def _run_lists(res):
    _run_confusables(res)
    _run_registry(res)
    for w in ("yes", "true", "on", "no", "false", "off", "y", "n", "1", "0", "t", "f", "ye",
              "tru", "of", "yess", "onn", "falsee"):
        for v in _case_variants(w):
            for pad in ("", " "):
                _one(res, "boolean", pad + v + pad, nontrivial_by_hash=True)
    res.exhaustive_parts.append("boolean: every letter-case variant of the six words and of near misses")
    for p in PORTS:
        _one(res, "port-number", p, nontrivial_by_hash=True)
        for t in ("inet-address", "inet-binding-address", "inet-connection-address",
                  "socket-address"):
            for h in ("", "h", "H.x", "[::1]", "::1", "[h]", "[]", "1.2.3.4", "a b", "[", "]"):
                _one(res, t, h + ":" + p, nontrivial_by_hash=True)
                _one(res, t, p, nontrivial_by_hash=True)
                _one(res, t, h, nontrivial_by_hash=True)
    for unit in ("kb", "Kb", "kB", "KB", "mb", "MB", "gb", "GB", "b", "k", "tb", "", "kbb"):
        for num in ("0", "1", "12", "-1", "+2", " 3", "3 ", "1_0", "", "1.5", "0x1", "٣"):
            for sep in ("", " "):
                _one(res, "byte-size", num + sep + unit, nontrivial_by_hash=True)
    for unit in ("s", "S", "m", "M", "h", "H", "d", "D", "w", "ms", "", "ss"):
        for num in ("0", "1", "12", "-1", "+2", " 3", "3 ", "1_0", "", "1.5", "٣"):
            for sep in ("", " "):
                _one(res, "time-interval", num + sep + unit, nontrivial_by_hash=True)
    for s in ("4w 2.5d 7h 12m 0.001s", "1w", "1d", "1h", "1m", "1s", "1x", "1", "w", "", " ",
              "1e3s", "-1d", "+1d", "1 d", "1dd", "1e999w", "infw", "nans", "1e99w", "1e20d",
              "1W", "1D", ".5h", "5.h", "1_0s", "1s 1m 1h 1d 1w", "1s1m", "1.5.5s", "0x1s",
              "1e400s", "-infd", "1q 1s", "q", "xq", "1s xq", "1s 1q"):
        _one(res, "timedelta", s, nontrivial_by_hash=True)
    for s in ("::", "::1", "1::", "fe80::1", "abcd::1", "FE80::1", "1:2:3:4:5:6:7:8",
              "1:2:3:4:5:6:7", "1:2:3:4:5:6:7:8:9", "1:2:3:4:5:6:7::", "::2:3:4:5:6:7:8",
              "1::8", "1::2::3", ":::", ":", "1:", ":1", "12345::", "::12345", "::ffff:1.2.3.4",
              "::1.2.3.4", "1.2.3.4::", "::1.2.3", "::1.2.3.256", "::01.2.3.4", "1:2:3:4:5:6:1.2.3.4",
              "1:2:3:4:5:6:7:1.2.3.4", "::g", "g::", "a:b", "A:B:C:D:E:F:0:1", "a.b:c", "::.",
              "fe80::1%eth0", "::1%0", "::%-", "::ffff:1.2.3.4%x_y", "1:2:3:4:5:6:7:8%1", "fe80::1%", "%eth0", "[::1]", "::1 ", " ::1", "::1\n", "dead:beef::", "0:0:0:0:0:0:0:0",
              "localhost", "LocalHost", "a", "_", "ab", "a.", "a-", "-a", "_a", "1a", "a1",
              "a..b", "a_b.c-d", "www.Example.COM", "1.2.3.4", "1.2.3", "1.2.3.4.5", "255.255.255.255",
              "256.1.1.1", "01.1.1.1", "001.1.1.1", "1.2.3.4\n", "ab\n", "a b", "", " ", "host:80",
              "1.2.3.04", "0.0.0.0", "300.1.1.1", "1..2.3", ".1.2.3", "a/b", "١.2.3.4"):
        _one(res, "ipaddr-or-hostname", s, nontrivial_by_hash=True)


def _run_quads(res, spec):
    a = spec["first"]
    for b, c, d in itertools.product(OCTETS, repeat=3):
        s = "%s.%s.%s.%s" % (a, b, c, d)
        _one(res, "ipaddr-or-hostname", s)
    if a == OCTETS[0]:
        res.exhaustive_parts.append("ipaddr-or-hostname: all %d^4 dotted quads over boundary octets %r"
                                    % (len(OCTETS), OCTETS))


# ------------------------------------------------------------------ file-system and locale types


def _fs_checks(res=None):
    dt = _mods()
    out = []
    base = tempfile.mkdtemp(prefix="zcv-c09-")
    try:
        d = os.path.join(base, "dir")
        os.mkdir(d)
        f = os.path.join(d, "file.txt")
        with open(f, "w") as fh:
            fh.write("x")
        missing = os.path.join(base, "missing")
        missing_in_missing = os.path.join(base, "missing", "x")
        reg = dt.Registry()

        def expect(name, value, ok):
            case = {"kind": "fs", "type": name, "relative": os.path.relpath(value, base)}
            try:
                v = reg.get(name)(value)
                got = True
            except ValueError:
                got = False
                v = None
            except BaseException as e:  # noqa
                out.append(failure("%s:wrong-exception:%s" % (name, type(e).__name__), case, repr(e)))
                return
            if res is not None:
                res.evaluations += 1
                res.nontrivial(key=name + value[len(base):] + str(ok))
            if got != ok:
                out.append(failure("%s:%s" % (name, "rejected-but-contract-accepts" if ok
                                              else "accepted-but-contract-rejects"), case, ""))
            elif ok and v != value:
                out.append(failure("%s:wrong-value" % name, case, "%r" % (v,)))
        expect("existing-directory", d, True)
        expect("existing-directory", base, True)
        expect("existing-directory", f, False)
        expect("existing-directory", missing, False)
        expect("existing-path", d, True)
        expect("existing-path", f, True)
        expect("existing-path", missing, False)
        expect("existing-file", f, True)
        expect("existing-file", missing, False)
        expect("existing-dirpath", f, True)
        expect("existing-dirpath", missing, True)
        expect("existing-dirpath", missing_in_missing, False)
        expect("existing-dirpath", os.path.join(f, "x"), False)
        # the same questions asked through symbolic links (to a directory, to a file, dangling)
        ld = os.path.join(base, "link-to-dir")
        lf = os.path.join(base, "link-to-file")
        dangling = os.path.join(base, "dangling")
        os.symlink(d, ld)
        os.symlink(f, lf)
        os.symlink(os.path.join(base, "nowhere"), dangling)
        expect("existing-directory", ld, True)
        expect("existing-directory", lf, False)
        expect("existing-directory", dangling, False)
        expect("existing-path", ld, True)
        expect("existing-path", lf, True)
        expect("existing-path", dangling, False)
        expect("existing-file", lf, True)
        expect("existing-file", dangling, False)
        expect("existing-dirpath", os.path.join(ld, "new"), True)
        expect("existing-dirpath", os.path.join(ld, "file.txt"), True)
        expect("existing-dirpath", os.path.join(dangling, "new"), False)
        cwd = os.getcwd()
        os.chdir(base)
        try:
            for name, value, ok in (("existing-dirpath", "nodirpart", True),
                                    ("existing-directory", "dir", True),
                                    ("existing-path", "dir/file.txt", True),
                                    ("existing-file", "dir/file.txt", True),
                                    ("existing-file", "dir/nofile", False),
                                    ("existing-dirpath", "dir/new", True),
                                    ("existing-dirpath", "nodir/new", False)):
                try:
                    v = reg.get(name)(value)
                    got = True
                except ValueError:
                    got = False
                if res is not None:
                    res.evaluations += 1
                    res.nontrivial(key=name + value + str(ok))
                if got != ok or (ok and v != value):
                    out.append(failure("%s:relative" % name, {"kind": "fs", "type": name,
                                                            "relative": value}, "%r" % got))
            # what exists in the current directory has no say in how an address is classified
            import socket as _socket
            before = {}
            probes = ["8100", "localhost", "host:80", "Example.COM", "[::1]:80"]
            for v_ in probes:
                before[v_] = normalise("socket-address", reg.get("socket-address")(v_))
            for nm_ in ("8100", "localhost", "Example.COM"):
                sk = _socket.socket(_socket.AF_UNIX)
                try:
                    sk.bind(os.path.join(base, nm_))
                except OSError:
                    pass
                finally:
                    sk.close()
            for v_ in probes:
                after = normalise("socket-address", reg.get("socket-address")(v_))
                if res is not None:
                    res.evaluations += 1
                if after != before[v_]:
                    out.append(failure("socket-address:depends-on-current-directory",
                                       {"kind": "fs", "type": "socket-address", "relative": v_},
                                       "%r with a socket of that name in the current directory, %r without" % (after, before[v_])))
        finally:
            os.chdir(cwd)
        import locale as _locale
        ambient = _locale.setlocale(_locale.LC_ALL)
        others = []
        for cand in ("C.utf8", "C.UTF-8", "en_US.UTF-8"):
            try:
                _locale.setlocale(_locale.LC_ALL, cand)
                others.append(cand)
                break
            except _locale.Error:
                pass
        _locale.setlocale(_locale.LC_ALL, ambient)
        values = (("C", True), ("POSIX", True), ("", True), ("xx_YY.no-such-charset", False),
                  ("no such locale", False)) + tuple((o, True) for o in others)
        for current in [ambient] + others:
            for value, ok in values:
                for _ in range(2):          # memoised conversion: ask twice
                    _locale.setlocale(_locale.LC_ALL, current)
                    before_ = _locale.setlocale(_locale.LC_ALL)
                    try:
                        try:
                            v = reg.get("locale")(value)
                        finally:
                            after_ = _locale.setlocale(_locale.LC_ALL)
                            _locale.setlocale(_locale.LC_ALL, ambient)
                            if after_ != before_:
                                out.append(failure("locale:conversion-changes-the-process-locale",
                                                   {"kind": "fs", "type": "locale", "s": value},
                                                   "%r before, %r after" % (before_, after_)))
                        got = True
                    except ValueError:
                        got = False
                    except BaseException as e:  # noqa
                        out.append(failure("locale:wrong-exception:%s" % type(e).__name__,
                                           {"kind": "fs", "type": "locale", "s": value}, repr(e)))
                        continue
                    if res is not None:
                        res.evaluations += 1
                        res.nontrivial(key="locale" + value)
                    if got != ok or (ok and v != value):
                        out.append(failure("locale:%s" % ("rejected" if ok else "accepted"),
                                           {"kind": "fs", "type": "locale", "s": value}, ""))
        if res is not None:
            res.sample({"kind": "fs", "tree": ["dir/", "dir/file.txt"],
                        "types": ["existing-directory", "existing-path", "existing-file",
                                  "existing-dirpath", "locale"]})
    finally:
        shutil.rmtree(base, ignore_errors=True)
    return out


# ------------------------------------------------------------------ Hypothesis parts


def _settings(n):
    from hypothesis import HealthCheck, Phase, settings
    return settings(max_examples=n, deadline=None, database=None, derandomize=False,
                    report_multiple_bugs=False,
                    phases=(Phase.generate,),
                    suppress_health_check=[HealthCheck.too_slow, HealthCheck.data_too_large])


def _grammar_strategies():
    from hypothesis import strategies as st
    letters = st.sampled_from("abzABZ")
    ident_start = st.sampled_from("abzABZ_")
    ident_rest = st.text(alphabet="abzABZ019_", max_size=30)
    ident = st.builds(lambda a, b: a + b, ident_start, ident_rest)
    dotted = st.lists(ident, min_size=1, max_size=8).map(".".join)
    basic = st.builds(lambda a, b: a + b, letters, st.text(alphabet="abzABZ019-._", max_size=199))
    suffix = st.one_of(dotted, dotted.map(lambda s: "." + s))
    digits = st.text(alphabet="0123456789", min_size=1, max_size=6)
    sign = st.sampled_from(["", "", "", "+", "-"])
    pad = st.sampled_from(["", "", "", " ", "\t", U2003])
    intlit = st.builds(lambda a, s, d, b: a + s + d + b, pad, sign,
                       st.lists(digits, min_size=1, max_size=3).map("_".join), pad)
    port = st.one_of(st.integers(0, 65535).map(str), st.integers(65530, 65540).map(str),
                     st.integers(0, 65535).map(lambda n: "%07d" % n), intlit)
    hostlabel = st.builds(lambda a, b: a + b, st.sampled_from("abzABZ_"),
                          st.text(alphabet="abzABZ019-_", min_size=1, max_size=20))
    hostname = st.lists(hostlabel, min_size=1, max_size=8).map(".".join)
    hexgroup = st.text(alphabet="0123456789abcdefABCDEF", min_size=1, max_size=4)
    octet = st.one_of(st.integers(0, 255).map(str), st.sampled_from(OCTETS[1:]))
    quad = st.lists(octet, min_size=4, max_size=4).map(".".join)

    @st.composite
    def ipv6(draw):
        n = draw(st.integers(0, 9))
        groups = [draw(hexgroup) for _ in range(n)]
        if draw(st.booleans()) and groups:
            groups[-1] = draw(quad)
        if draw(st.integers(0, 3)) > 0:
            k = draw(st.integers(0, len(groups)))
            left, right = groups[:k], groups[k:]
            return ":".join(left) + "::" + ":".join(right)
        return ":".join(groups)
    zone = st.text(alphabet="eth01-_.%", max_size=4).map(lambda z: "%" + z)
    scoped = st.builds(lambda a, z: a + z, ipv6(), zone)
    host = st.one_of(hostname, quad, ipv6(), ipv6().map(lambda s: "[" + s + "]"), st.just(""), scoped,
                     st.just("[]"), hostname.map(lambda s: "[" + s + "]"))
    hostport = st.one_of(st.builds(lambda h, p: h + ":" + p, host, port), host, port,
                         st.builds(lambda h: h + ":", host))
    unixpath = st.builds(lambda a, b: a + "/" + b, st.text(alphabet="ab.:1", max_size=5),
                         st.text(alphabet="ab/.:1 ", max_size=10))
    sockaddr = st.one_of(hostport, unixpath)
    unitnum = st.one_of(digits, st.builds(lambda a, b: a + "." + b, digits, digits), intlit,
                        st.sampled_from(["1e3", "-2.5", "+.5", "5.", "1e400", "inf", "nan", ""]))
    tdpart = st.builds(lambda n, u: n + u, unitnum, st.sampled_from("wdhmswdhmsqWD"))
    tdelta = st.lists(tdpart, max_size=5, unique_by=lambda p: p[-1:]).map(" ".join)
    bsize = st.builds(lambda n, u: n + u, intlit, st.sampled_from(
        ["", "kb", "KB", "Kb", "kB", "mb", "Mb", "gb", "GB", "b", "k", "tb"]))
    tint = st.builds(lambda n, u: n + u, intlit, st.sampled_from(
        ["", "s", "S", "m", "M", "h", "H", "d", "D", "w", "ms"]))
    floats = st.one_of(st.floats(allow_nan=False, allow_infinity=False).map(repr), unitnum,
                       st.builds(lambda a, b, c: a + b + c, pad, unitnum, pad))
    words = st.lists(st.text(alphabet="ab$" + EACUTE, min_size=1, max_size=5), max_size=6)
    slist = st.builds(lambda ws, seps: "".join(s + w for w, s in zip(ws, seps + [""] * 9)) + (seps[-1] if seps else ""),
                      words, st.lists(st.sampled_from([" ", "\t", "  ", "\n", U2003, " \t "]),
                                      min_size=7, max_size=7))
    boolean = st.sampled_from(["yes", "true", "on", "no", "false", "off"]).flatmap(
        lambda w: st.lists(st.booleans(), min_size=len(w), max_size=len(w)).map(
            lambda bits: "".join(c.upper() if b else c for c, b in zip(w, bits))))
    return {
        "basic-key": basic, "identifier": ident, "dotted-name": dotted, "dotted-suffix": suffix,
        "integer": intlit, "port-number": port, "boolean": boolean, "float": floats,
        "byte-size": bsize, "time-interval": tint, "timedelta": tdelta, "string-list": slist,
        "inet-address": hostport, "inet-binding-address": hostport,
        "inet-connection-address": hostport, "socket-address": sockaddr,
        "socket-binding-address": sockaddr, "socket-connection-address": sockaddr,
        "ipaddr-or-hostname": st.one_of(hostname, quad, ipv6(), scoped),
        "string": st.text(max_size=20), "null": st.text(max_size=20),
    }


EDIT_CHARS = "a1_.-: /[]$" + EACUTE + "\n"
NEIGHBOUR_TYPES = ("basic-key", "identifier", "dotted-name", "dotted-suffix", "ipaddr-or-hostname",
                   "boolean", "port-number", "byte-size", "time-interval")


def neighbours(s, limit=400):
    """All strings at edit distance one (deletion / substitution / insertion from EDIT_CHARS);
    for long strings only positions near both ends and a stride through the middle."""
    n = len(s)
    if n <= 40:
        pos = list(range(n + 1))
    else:
        pos = sorted(set(list(range(6)) + list(range(n - 5, n + 1)) + list(range(6, n - 5, max(1, n // 12)))))
    out = []
    for i in pos:
        if i < n:
            out.append(s[:i] + s[i + 1:])
            for c in EDIT_CHARS:
                if c != s[i]:
                    out.append(s[:i] + c + s[i + 1:])
        for c in EDIT_CHARS:
            out.append(s[:i] + c + s[i:])
    return out[:limit * 8]


def _run_grammar(res, spec):
    import hypothesis
    from hypothesis import given, strategies as st
    strategies = _grammar_strategies()
    names = sorted(strategies)
    pick = st.sampled_from(names).flatmap(lambda n: st.tuples(st.just(n), strategies[n]))

    @hypothesis.seed(spec["seed"])
    @_settings(spec["examples"])
    @given(pick)
    def run(p):
        name, s = p
        k = _one(res, name, s, nontrivial_by_hash=True)
        if k == "ok":
            res.count("grammar-accepted-len>=%d" % (100 if len(s) >= 100 else 20 if len(s) >= 20 else 0))
            if len(res.samples) < 2 and len(s) > 8:
                res.sample({"type": name, "s": s, "reference": repr(refdt.REF[name](s))})
            if name in NEIGHBOUR_TYPES:
                for t in neighbours(s):
                    _one(res, name, t, nontrivial_by_hash=True, force_nontrivial=True)
    run()


def _run_unicode(res, spec):
    import hypothesis
    from hypothesis import given, strategies as st
    names = sorted(refdt.REF)

    @hypothesis.seed(spec["seed"])
    @_settings(spec["examples"])
    @given(st.sampled_from(names), st.text(max_size=30))
    def run(name, s):
        _one(res, name, s, nontrivial_by_hash=True)
    run()


def check_coverage(tier, counters):
    problems = []
    for name in refdt.REF:
        if counters.get("%s:ok" % name, 0) < 10:
            problems.append("fewer than 10 accepted strings for %s" % name)
        if name not in ("string", "null", "string-list") and counters.get("%s:err" % name, 0) < 10:
            problems.append("fewer than 10 rejected strings for %s" % name)
    return problems


# ------------------------------------------------------------------ Atheris stage (python3-vt)


def fuzz_decode(data):
    if not data:
        return []
    names = sorted(refdt.REF)
    return [{"type": names[data[0] % len(names)], "s": data[1:].decode("utf-8", "replace")[:80]}]


def fuzz_seeds():
    names = sorted(refdt.REF)
    ex = {"basic-key": "Abc-1.x", "boolean": "yes", "byte-size": "10kb", "dotted-name": "a.b_c", "dotted-suffix": ".a.b",
          "float": "1.5e3", "identifier": "_ab1", "inet-address": "[::1]:80", "inet-binding-address": "host:80",
          "inet-connection-address": "80", "integer": "-12", "ipaddr-or-hostname": "fe80::1", "null": "x",
          "port-number": "65535", "socket-address": "/tmp/s", "socket-binding-address": "h:1",
          "socket-connection-address": "1.2.3.4:5", "string": "x", "string-list": "a b", "time-interval": "12h",
          "timedelta": "4w 2.5d 7h 12m 0.001s"}
    return [bytes([i]) + ex.get(n, "x").encode("utf-8") for i, n in enumerate(names)]
