"""C13 -- a schema object can be reused indefinitely: loads neither depend on nor alter it.

Stateful: one 'aged' schema object receives a generated history of up to 8 operations from
{load valid text, load invalid text (fault at the syntax, matching, conversion or
section-datatype stage), load with %import of a generated package, load with overrides,
mutate every list/dict/section reachable from a previously returned configuration}.  After
every step the outcome must equal the outcome of the same load against a fresh schema loaded
from the same files, and the aged schema's description (public accessors) must equal its
description at construction.  At the end a second independent copy replays the history.
"""

import collections
import os

from zcv import compose, digest, gen, loadcheck, refload
from zcv.core import Result, failure
from zcv.props import c12, c14

ID = "C13"
LEVEL = "exploration"
RULE = ("random schemas of the C01 family (with section datatypes that can refuse a section) "
        "plus 1..2 generated component packages adding implementers of the schema's abstract "
        "types; histories of 3..8 operations {load valid, load invalid with a fault at the "
        "syntax / matching / conversion / section-datatype stage, load with %import, load with "
        "overrides, mutate everything reachable from an earlier result} against one schema "
        "object, each load compared with the same load against a fresh schema; schema "
        "description compared after every step. Non-trivial = a history with a failed load "
        "followed by a successful one, or a mutation followed by a load that uses defaults, or "
        "an %import; distinct by hash of the history.")
ASSUMPTIONS = [
    "no reference model: aged-vs-fresh comparison of the real code, plus the schema's own description read through public accessors (gettypenames, gettype, iteration, getsubtypenames, getdefault)",
    "known finding D9 (implementers of %import-ed components appear in the application schema's abstract types) is reported once per run; the baseline description is then advanced for exactly those implementer lists so that any other change is still seen",
]
MAIN = "file:///zcv/main.conf"
SECTION_DTS = ("zcv.dt.wrap", "zcv.dt.picky", "zcv.dt.picky")


def outcome(got):
    if got[0] == "ok":
        return ("ok", digest.digest(got[1]))
    if got[0] == "reject":
        return ("reject", type(got[1]).__name__)
    return ("internal", type(got[1]).__name__, got[2])


def _errtext(e):
    import re
    return re.sub(r"0x[0-9a-fA-F]+", "0x", str(e))


def mutate_everything(cfg):
    from zcv import dt as zdt
    seen = set()

    def walk(v):
        if id(v) in seen:
            return
        seen.add(id(v))
        if isinstance(v, zdt.Wrapped):
            walk(v.value)
        elif hasattr(v, "getSectionAttributes"):
            for a in v.getSectionAttributes():
                walk(getattr(v, a))
                try:
                    setattr(v, a, "zcv-mutated")
                except Exception:
                    pass
            try:
                v.zcv_extra = 1
            except Exception:
                pass
        elif isinstance(v, list):
            for x in list(v):
                walk(x)
            v.append("zcv-mutated")
            v.reverse()
        elif isinstance(v, dict):
            for x in list(v.values()):
                walk(x)
            v.clear()
            v["zcv-mutated"] = ["x"]
    walk(cfg)


def gen_history(rng, ast, sm, packages):
    ops = []
    n = rng.randint(3, 8)
    for _ in range(n):
        r = rng.random()
        if r < 0.3:
            ops.append({"op": "load", "text": gen.gen_text(rng, sm, 0)})
        elif r < 0.5:
            text = gen.gen_text(rng, sm, rng.choice([1, 2, 3]))
            if rng.random() < 0.4:
                # a fault at the section-datatype stage
                text = text.replace(" v\n", " REJECTME\n", 1).replace(" two words\n", " REJECTME\n", 1)
            ops.append({"op": "load", "text": text})
        elif r < 0.7 and packages:
            p = rng.choice(sorted(packages))
            text = gen.gen_text(rng, sm, rng.choice([0, 0, 1]))
            extra = []
            for t in packages[p]["types"]:
                if rng.random() < 0.6:
                    extra.append("<%s%s/>" % (t["name"], rng.choice(["", " imp1", " imp2"])))
            others = [q for q in sorted(packages) if q != p]
            if others and rng.random() < 0.4:
                # a type of a package this text does NOT import (an earlier load may have)
                t = rng.choice(packages[rng.choice(others)]["types"])
                extra.append("<%s imp3/>" % t["name"])
            lines = ["%%import %s" % p] + extra
            if others and rng.random() < 0.3:
                # ... or both packages, the other one first
                lines.insert(0, "%%import %s" % rng.choice(others))
            r2 = rng.random()
            if r2 < 0.3:
                lines = extra + ["%%import %s" % p]
            if r2 > 0.7:
                # sections of the imported types after everything else
                full = "%%import %s\n" % p + text + ("" if text.endswith("\n") or not text else "\n") + "".join(l + "\n" for l in extra)
            else:
                full = "".join(l + "\n" for l in lines) + text
            ops.append({"op": "load", "text": full, "import": True})
        elif r < 0.85:
            text = gen.gen_text(rng, sm, 0)
            ovs, _ = c14.gen_overrides(rng, sm, text)
            ops.append({"op": "load", "text": text, "overrides": [c14.spec(p_, v) for p_, v in ovs]})
        else:
            ops.append({"op": "mutate"})
    return ops


def implementers(desc):
    return {n: list(t["implementers"]) for n, t in desc["types"].items() if t.get("abstract")}


def run_history(ast, packages, ops):
    """-> (list of failures (sig, detail), stats)"""
    ZConfig = loadcheck.zc()
    comp = compose.Composed()
    comp.main_xml = gen.render_schema(ast)
    comp.packages = {p: {"component.xml": gen.render_schema(a, root="component")} for p, a in packages.items()}
    out = []
    stats = collections.Counter()
    late = None
    for pa in packages.values():
        for t in pa["types"]:
            for it in t["items"]:
                if (it.get("datatype") or "").startswith("zcvlate_"):
                    late = it["datatype"].split(".")[0]
    if late:
        comp.files["zcv-late/%s.py" % late] = "def conv(value):\n    return 'late:' + value\n"
    late_dir = None
    try:
        main = comp.materialise()
        try:
            aged = ZConfig.loadSchema(main)
            witness = ZConfig.loadSchema(main)
        except Exception as e:  # noqa
            return [("schema-rejected", repr(e))], stats
        baseline = digest.schema_digest(aged)
        results = []
        history_outcomes = []
        d9_reported = False
        shared_loader = [None]
        # a long-lived extended loader that carries one consumable option
        fixed_opt = None
        for it in ast["items"]:
            if it["kind"] in ("key", "multikey") and it["name"] != "+" and (it.get("datatype") or "string") in gen.GOOD \
                    and refload.refdt.basic_key(it["name"])[0] == "ok":
                fixed_opt = "%s=%s" % (it["name"], gen.GOOD[it.get("datatype") or "string"][0])
                break
        ext_loader = [None]
        for k, op in enumerate(ops):
            if op["op"] == "mutate":
                for r in results:
                    mutate_everything(r)
                stats["mutations"] += 1
                results = []
            elif op["op"] == "enable-late":
                if late and late_dir is None:
                    import importlib
                    import sys
                    late_dir = os.path.join(comp.root, "zcv-late")
                    sys.path.append(late_dir)
                    importlib.invalidate_caches()
                    stats["module-made-importable"] += 1
            else:
                ov = op.get("overrides") or ()
                lap = op.get("overlap")
                hook_state = {"calls": 0, "busy": False, "results": []}
                if lap:
                    from zcv import dt as _zdt
                    other = ops[lap["with"]] if lap["with"] < len(ops) and ops[lap["with"]]["op"] == "load" else op
                    ntext = other["text"]
                    nurl = MAIN if lap["url"] == "same" else "file:///zcv/other/nested.conf"
                    same_loader = lap["via"] == "same-loader" and "%import" not in ntext and "%import" not in op["text"] and not ov
                    if same_loader:
                        # one loader refuses a URL it is reading already (its recursion guard)
                        nurl = "file:///zcv/other/nested.conf"

                    def hook(_value, hook_state=hook_state, ntext=ntext, nurl=nurl):
                        # a second load -- same schema object, same or another URL -- runs to
                        # completion while the first is suspended in a conversion
                        if hook_state["busy"] or hook_state["calls"] >= 2:
                            return
                        hook_state["busy"] = True
                        hook_state["calls"] += 1
                        try:
                            if hook_state.get("loader") is not None:
                                hook_state["results"].append(outcome(loadcheck.real_load_with(hook_state["loader"], ntext, nurl)))
                            else:
                                hook_state["results"].append(outcome(loadcheck.real_load(aged, ntext, url=nurl)))
                        finally:
                            hook_state["busy"] = False
                    if not same_loader:
                        _zdt.HOOK = hook
                try:
                    got_aged = loadcheck.real_load(aged, op["text"], url=MAIN, overrides=ov)
                finally:
                    if lap:
                        _zdt.HOOK = None
                fresh = ZConfig.loadSchema(main)
                got_fresh = loadcheck.real_load(fresh, op["text"], url=MAIN, overrides=ov)
                a, f = outcome(got_aged), outcome(got_fresh)
                history_outcomes.append(a)
                # the same load through a loader object that has served earlier loads
                if ov:
                    from ZConfig import cmdline
                    ld = cmdline.ExtendedConfigLoader(aged)
                    for o in ov:
                        try:
                            ld.addOption(o)
                        except ZConfig.ConfigurationError:
                            ld = None
                            break
                    seq = [ld, ld] if ld is not None else []
                else:
                    if shared_loader[0] is None:
                        import ZConfig.loader
                        shared_loader[0] = ZConfig.loader.ConfigLoader(aged)
                    seq = [shared_loader[0]]
                if fixed_opt is not None and not ov:
                    from ZConfig import cmdline
                    if ext_loader[0] is None:
                        ext_loader[0] = cmdline.ExtendedConfigLoader(aged)
                        ext_loader[0].addOption(fixed_opt)
                    fl_ = cmdline.ExtendedConfigLoader(fresh)
                    fl_.addOption(fixed_opt)
                    r1 = outcome(loadcheck.real_load_with(ext_loader[0], op["text"], MAIN))
                    r2 = outcome(loadcheck.real_load_with(fl_, op["text"], MAIN))
                    if r1[0] != r2[0] or (r1[0] == "ok" and digest.first_diff(r2[1], r1[1])):
                        out.append(("reused-extended-loader-differs-from-fresh:%s-vs-%s" % (r1[0], r2[0]),
                                    "step %d, option %r, %r" % (k, fixed_opt, op.get("text", "")[:200])))
                for ld in seq:
                    if lap and same_loader:
                        hook_state["loader"] = ld
                        _zdt.HOOK = hook
                    try:
                        r = outcome(loadcheck.real_load_with(ld, op["text"], MAIN))
                    finally:
                        if lap:
                            _zdt.HOOK = None
                    if r[0] != f[0] or (r[0] == "ok" and digest.first_diff(f[1], r[1])):
                        out.append(("reused-loader-differs-from-fresh:%s-vs-%s" % (r[0], f[0]),
                                    "step %d%s %r" % (k, " (overrides)" if ov else "", op.get("text", "")[:200])))
                        break
                if lap and hook_state["results"]:
                    stats["overlapping-loads"] += len(hook_state["results"])
                    alone = outcome(loadcheck.real_load(ZConfig.loadSchema(main), ntext, url=nurl))
                    for r_ in hook_state["results"]:
                        if r_[0] != alone[0] or (r_[0] == "ok" and digest.first_diff(alone[1], r_[1])) or (r_[0] != "ok" and r_[1:] != alone[1:]):
                            out.append(("load-inside-a-suspended-load-differs-from-the-same-load-alone:%s-vs-%s" % (r_[0], alone[0]),
                                        "step %d (%s, %s URL): nested %r; outer %r" % (k, lap["via"], lap["url"], ntext[:150], op["text"][:150])))
                            break
                stats["load:" + a[0]] += 1
                if got_aged[0] == "ok":
                    results.append(got_aged[1])
                if a[0] != f[0]:
                    out.append(("aged-schema-differs-from-fresh:%s-vs-%s" % (a[0], f[0]),
                                "step %d %r" % (k, op.get("text", "")[:200])))
                elif a[0] == "reject" and (a[1] != f[1] or _errtext(got_aged[1]) != _errtext(got_fresh[1])):
                    # same code, same text, same files: the refusal itself is part of the outcome
                    out.append(("aged-schema-differs-from-fresh:error",
                                "step %d: %s: %s  vs  %s: %s" % (k, a[1], _errtext(got_aged[1])[:150], f[1], _errtext(got_fresh[1])[:150])))
                elif a[0] == "ok":
                    d = digest.first_diff(f[1], a[1])
                    if d:
                        out.append(("aged-schema-differs-from-fresh:tree", "step %d: %s" % (k, d)))
            now = digest.schema_digest(aged)
            d = digest.first_diff(baseline, now)
            if d:
                only_impl = False
                if implementers(now) != implementers(baseline):
                    probe = {"top": now["top"], "types": {n: (dict(t, implementers=baseline["types"][n]["implementers"])
                                                              if t.get("abstract") and n in baseline["types"] else t)
                                                          for n, t in now["types"].items()}}
                    only_impl = digest.first_diff(baseline, probe) is None
                pkg_types = set(t["name"].lower() for pa in packages.values() for t in pa["types"])
                added = set()
                for n_, lst in implementers(now).items():
                    added |= set(lst) - set(implementers(baseline).get(n_, []))
                removed = any(set(implementers(baseline).get(n_, [])) - set(lst) for n_, lst in implementers(now).items())
                imports_here = op.get("import") or (op.get("overlap") and op["op"] == "load" and "%import" in ops[op["overlap"]["with"]].get("text", ""))
                if only_impl and imports_here and added and added <= pkg_types and not removed:
                    # the one recorded finding (D9): a load with %import leaves the component's
                    # implementers on the application schema's abstract types -- nothing else
                    if not d9_reported:
                        out.append(("schema-description-changed:implementers-after-%import",
                                    "step %d: %s" % (k, d)))
                        d9_reported = True
                    baseline = now
                elif only_impl:
                    out.append(("schema-description-changed:implementers", "step %d (%s, no %%import in this step): %s" % (k, op["op"], d)))
                    baseline = now
                else:
                    out.append(("schema-description-changed", "step %d (%s): %s" % (k, op["op"], d)))
                    baseline = now
        # teardown: an independent copy replays the loads
        j = 0
        if late_dir is not None:
            # back to the world in which the history started
            import importlib
            import sys
            sys.path.remove(late_dir)
            sys.modules.pop(late, None)
            importlib.invalidate_caches()
        for op in ops:
            if op["op"] == "enable-late" and late_dir is not None and late_dir not in sys.path:
                sys.path.append(late_dir)
                importlib.invalidate_caches()
            if op["op"] != "load":
                continue
            w = outcome(loadcheck.real_load(witness, op["text"], url=MAIN, overrides=op.get("overrides") or ()))
            a = history_outcomes[j]
            j += 1
            if w[0] != a[0] or (a[0] == "ok" and digest.first_diff(w[1], a[1])):
                out.append(("second-copy-replays-differently", "load %d" % j))
                break
    finally:
        if late_dir is not None:
            import sys
            if late_dir in sys.path:
                sys.path.remove(late_dir)
            sys.modules.pop(late, None)
        comp.cleanup()
    return out, stats


def evaluate(case):
    pk = case["packages"]
    for p in pk:
        if not p or not p.replace("_", "a").isalnum() or not p[0].isalpha():
            return []
    try:
        refload.compile_schema(case["schema"])
        fl, _ = run_history(case["schema"], pk, case["ops"])
    except (KeyError, ValueError, AttributeError, TypeError):
        return []
    return [failure(sig, case, d) for sig, d in fl]


SHRINK_SKIP = {"schema", "packages", "overrides"}


def shards(tier, seed):
    n = 4500 if tier == "thorough" else 450
    return [{"seed": seed, "lo": i * n, "hi": (i + 1) * n} for i in range(16)]


def run_shard(spec):
    res = Result()
    counters = collections.Counter()
    for i in range(spec["lo"], spec["hi"]):
        rng = loadcheck.case_rng(spec["seed"] + 1313, i)
        ast = gen.gen_schema(rng, section_dts=SECTION_DTS, boost=0.35)
        if not ast["abstract"]:
            ast["abstract"].append("abs1")
            ast["items"].append({"kind": "multisection", "name": "*", "attribute": "absslot", "required": False,
                                 "handler": None, "type": "abs1"})
        if rng.random() < 0.15:
            # a default that its datatype refuses (legal: defaults are converted when they are
            # used, zone U5): loads that need it fail, loads that supply the key do not -- on an
            # aged schema exactly as on a fresh one
            cands = [it for cont in [ast] + ast["types"] for it in cont["items"]
                     if it["kind"] == "key" and it["name"] != "+" and it.get("default") is not None
                     and it.get("datatype") in gen.BAD]
            if cands:
                it = rng.choice(cands)
                it["default"] = rng.choice(gen.BAD[it["datatype"]])
                counters["schema:unconvertible-default"] += 1
        clash_base = None
        if rng.random() < 0.2:
            # a type whose keyed defaults differ in letter case only (fine under its case-sensitive
            # key type); a component will try to derive a type with a case-insensitive key type
            # from it -- that import is refused, and the refusal must leave the base as it was
            clash_base = "tcl"
            ast["types"].append({"name": "tcl", "keytype": "identifier", "datatype": None, "implements": None, "extends": None,
                                 "items": [{"kind": rng.choice(["key", "multikey"]), "name": "+", "attribute": "clmap", "required": False,
                                            "handler": None, "datatype": "string",
                                            "defaults": [["Spool", "a"], ["other", "o"], ["spool", "b"], ["last", "z"]]}]})
            ast["items"].append({"kind": "multisection", "name": "*", "attribute": "clslot", "required": False,
                                 "handler": None, "type": "tcl"})
            counters["schema:base-whose-defaults-clash-under-another-key-type"] += 1
        overlapping = rng.random() < 0.3
        if overlapping:
            # keys inside section types whose (identity) conversion re-enters ZConfig: they are
            # converted when their section closes, i.e. while the load is still reading
            cands = [it for t in ast["types"] for it in t["items"]
                     if it["kind"] in ("key", "multikey") and (it.get("datatype") or "string") == "string"]
            rng.shuffle(cands)
            for it in cands[:3]:
                it["datatype"] = "zcv.dt.reentrant"
            overlapping = bool(cands)
        sm = refload.compile_schema(ast)
        packages = {}
        known = [t["name"] for t in ast["types"]]
        for p in range(rng.randint(1, 2)):
            pname = "zcvr%d_%d_p%d" % (spec["seed"] % 1000, i, p + 1)
            ptypes = []
            for j in range(rng.randint(1, 2)):
                t = {"name": "p%dt%d" % (p + 1, j + 1), "keytype": None, "datatype": rng.choice([None, "zcv.dt.wrap"]),
                     "implements": rng.choice(ast["abstract"]) if rng.random() < 0.8 else None, "extends": None,
                     "items": [{"kind": "key", "name": "v", "attribute": None, "required": False,
                                "handler": None, "datatype": "zcv.dt.reentrant" if overlapping and rng.random() < 0.5 else "string",
                                "default": "d"}]}
                ptypes.append(t)
            # a component type derived from an application type (re-keying its wildcard defaults)
            wildbases = [b for b in ast["types"] if any(it["name"] == "+" and it.get("defaults") for it in b["items"])
                         and not b.get("keytype")]
            if wildbases and rng.random() < 0.7:
                b = rng.choice(wildbases)
                keys = [d[0] for it in b["items"] if it["name"] == "+" for d in it.get("defaults") or []]
                newkt = "identifier" if all(k.replace("_", "a").isalnum() and not k[0].isdigit() for k in keys) else None
                ptypes.append({"name": "p%dx" % (p + 1), "keytype": newkt, "datatype": None,
                               "implements": rng.choice(ast["abstract"]), "extends": b["name"], "items": []})
            if clash_base and p == 0:
                ptypes.append({"name": "p1clash", "keytype": "basic-key", "datatype": None,
                               "implements": rng.choice(ast["abstract"]), "extends": clash_base, "items": []})
            packages[pname] = {"abstract": [], "types": ptypes, "imports": []}
        if len(packages) == 2 and rng.random() < 0.4:
            # the second component imports the first: '%import' of the second brings both
            first, second = sorted(packages)
            packages[second]["imports"] = [first]
            counters["history-with:component-importing-a-component"] += 1
        ops = gen_history(rng, ast, sm, packages)
        chained = [q for q in sorted(packages) if packages[q].get("imports")]
        if chained and rng.random() < 0.8:
            # both components named explicitly in one text; later a text that names only the
            # importing one and uses a type of the imported one
            second = chained[0]
            first = packages[second]["imports"][0]
            t_first = packages[first]["types"][0]["name"]
            both = {"op": "load", "text": "%%import %s\n%%import %s\n<%s both/>\n" % (first, second, t_first), "import": True}
            only = {"op": "load", "text": "%%import %s\n<%s only/>\n" % (second, t_first), "import": True}
            k = rng.randint(0, len(ops))
            ops.insert(k, both)
            ops.insert(rng.randint(k + 1, len(ops)), only)
            if rng.random() < 0.5:
                ops.insert(rng.randint(0, k), dict(only))
        if overlapping:
            loads = [k_ for k_, o in enumerate(ops) if o["op"] == "load"]
            for k_ in loads:
                if rng.random() < 0.7:
                    ops[k_]["overlap"] = {"with": rng.choice(loads), "url": rng.choice(["same", "same", "other"]),
                                          "via": rng.choice(["fresh-loader", "fresh-loader", "same-loader"])}
            counters["history-with:overlapping-loads"] += 1
        if rng.random() < 0.12:
            # a component whose datatype lives in a module that only becomes importable in the
            # course of the history (the application extends sys.path): before that, loads that
            # import the component fail, afterwards they work -- on an aged schema as on a fresh one
            pl = rng.choice(sorted(packages))
            mod = "zcvlate_%d_%d" % (spec["seed"] % 1000, i)
            packages[pl]["types"][0]["items"].append({"kind": "key", "name": "zzlate", "attribute": None, "required": False,
                                                      "handler": None, "datatype": mod + ".conv", "default": "1"})
            imp = {"op": "load", "text": "%%import %s\n<%s late/>\n" % (pl, packages[pl]["types"][0]["name"]), "import": True}
            k = rng.randint(0, len(ops))
            ops[k:k] = [dict(imp), {"op": "enable-late"}, dict(imp)]
            if rng.random() < 0.5:
                ops.insert(rng.randint(0, k), dict(imp))
            counters["history-with:module-importable-later"] += 1
        res.evaluations += 1
        fl, stats = run_history(ast, packages, ops)
        counters.update(stats)
        kinds = [o["op"] + (":import" if o.get("import") else "") + (":overrides" if o.get("overrides") else "") for o in ops]
        for k in set(kinds):
            counters["history-with:" + k] += 1
        counters["history-length:%d" % len(ops)] += 1
        res.nontrivial(key=[gen.render_schema(ast), ops])
        if len(res.samples) < 1:
            res.sample({"schema_xml": gen.render_schema(ast), "ops": ops})
        for sig, d in fl:
            res.fail(sig, {"schema": ast, "packages": packages, "ops": ops}, d)
    res.counters.update(counters)
    return res


def check_coverage(tier, c):
    problems = []
    for k in ("load:ok", "load:reject", "mutations", "history-with:load:import", "history-with:load:overrides"):
        if c.get(k, 0) < 30:
            problems.append("class %s has only %d cases" % (k, c.get(k, 0)))
    return problems
