"""C16 -- the composite handler delivers every handled value exactly once, all or nothing.

Domain: schemas of the C01 family with handler= on random subsets of items (names in mixed
case, some shared), texts accepted by both the reference and ZConfig, and four kinds of
handler maps (complete / one name missing / some None / case-variant duplicate).
Oracle: the reference loader's handler entry list (post-order over closed sections, items in
schema order with inherited ones first, schema handler last).
"""

import collections

from zcv import digest, loadcheck, refload
from zcv.core import Result, failure

ID = "C16"
LEVEL = "exploration"
RULE = ("random schemas of the C01 family with handler attributes on ~half of all items at all "
        "depths and on the schema; six texts each; for every accepted text four handler maps "
        "(complete with mixed-case names, one name removed, one name mapped to None, a "
        "case-variant duplicate). Non-trivial = accepted text with >= 3 handler entries coming "
        "from >= 2 nesting levels; distinct by hash of (schema XML, text).")
ASSUMPTIONS = [
    "zcv/refload.py handler-entry order is the trusted reading of the statement",
    "schema-level extends (merge order) is not part of this family",
    "handler-map names that are not basic-keys (U14) are not generated",
]


def reachable_ids(cfg):
    ids = set()

    def walk(v):
        ids.add(id(v))
        from zcv import dt as zdt
        if isinstance(v, zdt.Wrapped):
            walk(v.value)
        elif hasattr(v, "getSectionAttributes"):
            for a in v.getSectionAttributes():
                walk(getattr(v, a))
        elif isinstance(v, list):
            for x in v:
                walk(x)
    walk(cfg)
    return ids


IMPORT_LINE = "%import ZConfig.components.basic\n"


def compare(ast, sm, schema, text, rng=None):
    ZConfig = loadcheck.zc()
    prelude = ""
    if text.startswith(IMPORT_LINE):
        # a component that ships with the library, whose types the text does not use: the handler
        # entries are those of the text without the line
        prelude, text = IMPORT_LINE, text[len(IMPORT_LINE):]
    ref = refload.ref_load(ast, {loadcheck.MAIN: text}, loadcheck.MAIN, sm=sm)
    out = []
    if ref.kind != "accept":
        return ref, out
    got = loadcheck.real_load(schema, prelude + text)
    if got[0] != "ok":
        return ref, None
    cfg, handler = got[1], got[2]
    want = ref.handlers
    names = [n for n, _ in want]
    try:
        n = len(handler)
    except Exception as e:  # noqa
        out.append(("len-raises", repr(e)))
        n = None
    if n is not None and n != len(want):
        out.append(("wrong-length", "len(handler)=%d, expected %d entries %r" % (n, len(want), names)))
    distinct = sorted(set(names))
    calls = []

    def recorder(name):
        def f(value):
            calls.append((name, value))
        return f
    # 1. complete map, names in varying case
    complete = {}
    for i, nm in enumerate(distinct):
        complete[nm.upper() if i % 2 else nm.capitalize()] = recorder(nm)
    try:
        handler(complete)
    except Exception as e:  # noqa
        out.append(("complete-map-raises", "%r for names %r" % (e, sorted(complete))))
    else:
        gotseq = [(nm, digest.digest(v)) for nm, v in calls]
        wantseq = [(nm, v) for nm, v in want]
        if [g[0] for g in gotseq] != [w[0] for w in wantseq]:
            out.append(("wrong-call-order-or-count", "called %r expected %r" % ([g[0] for g in gotseq], names)))
        else:
            for (gn, gv), (wn, wv) in zip(gotseq, wantseq):
                d = digest.first_diff(wv, gv)
                if d:
                    out.append(("wrong-value-delivered", "handler %s: %s" % (gn, d)))
                    break
            ids = reachable_ids(cfg)
            for nm, v in calls:
                if id(v) not in ids and v is not None and not isinstance(v, (str, int, float, bool, tuple)):
                    out.append(("delivered-object-not-in-tree", "handler %s got %r" % (nm, v)))
                    break
    if len(names) >= 2:
        # 1b. a callable that uses the handler again, with another (complete) map, while the first
        #     call is under way: both calls deliver everything, each to its own map
        outer_calls, inner_calls = [], []
        state = {"done": False}
        inner_map = {nm: (lambda v, nm=nm: inner_calls.append(nm)) for nm in distinct}

        def outer(nm):
            def f(value):
                outer_calls.append(nm)
                if not state["done"] and len(outer_calls) == 1 + len(names) // 2:
                    state["done"] = True
                    handler(inner_map)
            return f
        try:
            handler({nm: outer(nm) for nm in distinct})
        except Exception as e:  # noqa
            out.append(("handler-used-from-inside-a-callable-raises:%s" % type(e).__name__, repr(e)[:200]))
        else:
            if outer_calls != names or inner_calls != names:
                out.append(("handler-used-from-inside-a-callable", "outer call delivered %r, inner call %r, expected %r each"
                            % (outer_calls, inner_calls, names)))
    if distinct:
        # 1a. one map OBJECT used for several calls and edited in between without changing its
        #     size: each call answers for the map as it is then; and with every warning turned
        #     into an error (the handler has nothing to warn about)
        import warnings
        calls[:] = []
        m1 = {nm: recorder(nm) for nm in distinct}
        m1["zz-not-needed"] = recorder("zz")
        try:
            with warnings.catch_warnings():
                warnings.simplefilter("error")
                handler(m1)
        except Exception as e:  # noqa
            out.append(("complete-map-with-an-extra-name-raises:%s" % type(e).__name__, repr(e)[:200]))
        else:
            if [c[0] for c in calls] != names:
                out.append(("wrong-call-order-or-count", "same map object, first call: %r expected %r" % ([c[0] for c in calls], names)))
            victim = distinct[-1]
            m1[victim] = None                      # same object, same size
            calls[:] = []
            try:
                handler(m1)
            except Exception as e:  # noqa
                out.append(("none-map-raises", "same map object, second call: %r" % (e,)))
            else:
                exp = [nm for nm in names if nm != victim]
                if [c[0] for c in calls] != exp:
                    out.append(("none-entry-not-skipped", "same map object edited in place: called %r expected %r" % ([c[0] for c in calls], exp)))
            del m1[victim]
            m1["zz-other"] = recorder("zz2")       # same size again, one needed name gone
            calls[:] = []
            try:
                handler(m1)
            except ZConfig.ConfigurationError:
                if calls:
                    out.append(("called-before-refusing-incomplete-map", "same map object edited in place"))
            except Exception as e:  # noqa
                out.append(("incomplete-map:wrong-exception", repr(e)))
            else:
                out.append(("incomplete-map-accepted", "same map object edited in place: %r missing" % victim))
        # 1b. callables that are false in a boolean context are still callables (only None skips)
        calls[:] = []

        class FalsyRecorder(list):
            def __init__(self, name):
                list.__init__(self)
                self.name = name

            def __call__(self, value):
                calls.append((self.name, value))
        try:
            handler({nm: FalsyRecorder(nm) for nm in distinct})
        except Exception as e:  # noqa
            out.append(("falsy-callable-map-raises", repr(e)))
        else:
            if [c[0] for c in calls] != names:
                out.append(("falsy-callable-skipped", "called %r expected %r" % ([c[0] for c in calls], names)))
        # 2. one name missing -> error, nothing called
        for victim in (distinct[0], distinct[-1]):
            calls[:] = []
            m = {nm: recorder(nm) for nm in distinct if nm != victim}
            try:
                handler(m)
            except ZConfig.ConfigurationError:
                if calls:
                    out.append(("called-before-refusing-incomplete-map", "missing %r, called %r" % (victim, [c[0] for c in calls])))
            except Exception as e:  # noqa
                out.append(("incomplete-map:wrong-exception", repr(e)))
            else:
                out.append(("incomplete-map-accepted", "missing %r of %r" % (victim, names)))
        # 3. None skips
        calls[:] = []
        m = {nm: recorder(nm) for nm in distinct}
        m[distinct[0]] = None
        try:
            handler(m)
        except Exception as e:  # noqa
            out.append(("none-map-raises", repr(e)))
        else:
            exp = [nm for nm in names if nm != distinct[0]]
            if [c[0] for c in calls] != exp:
                out.append(("none-entry-not-skipped", "called %r expected %r" % ([c[0] for c in calls], exp)))
        # 4. case-variant duplicates: canonical spelling first / variant first / two variants /
        #    a duplicated name the configuration does not use, for the first and the last name
        dupmaps = []
        for victim in (distinct[-1], distinct[0]):
            up = victim.upper()
            if up == victim:
                continue
            m = {nm: recorder(nm) for nm in distinct}
            m[up] = recorder(victim)
            dupmaps.append(m)
            m = {up: recorder(victim)}
            m.update((nm, recorder(nm)) for nm in distinct)
            dupmaps.append(m)
            cap = victim.capitalize()
            if cap not in (victim, up):
                m = {up: recorder(victim), cap: recorder(victim)}
                m.update((nm, recorder(nm)) for nm in distinct if nm != victim)
                dupmaps.append(m)
        m = {"ZZ-unused": recorder("zz")}
        m.update((nm, recorder(nm)) for nm in distinct)
        m["zz-unused"] = recorder("zz")
        dupmaps.append(m)
        # ... also when one or both of the two spellings are mapped to None
        victim = distinct[-1]
        if victim.upper() != victim:
            for first, second in ((None, recorder(victim)), (recorder(victim), None), (None, None)):
                for a_, b_ in ((victim, victim.upper()), (victim.upper(), victim)):
                    m = {a_: first}
                    m.update((nm, recorder(nm)) for nm in distinct if nm != victim)
                    m[b_] = second
                    dupmaps.append(m)
        for m in dupmaps:
            calls[:] = []
            try:
                handler(m)
            except ZConfig.ConfigurationError:
                if calls:
                    out.append(("called-before-refusing-duplicate-names", repr([c[0] for c in calls])))
            except Exception as e:  # noqa
                out.append(("duplicate-map:wrong-exception", repr(e)))
            else:
                out.append(("duplicate-names-accepted", repr(list(m))))
    else:
        try:
            handler({})
        except Exception as e:  # noqa
            out.append(("empty-map-raises", repr(e)))
        calls[:] = []
        try:
            handler({"Apply": recorder("a"), "apply": recorder("b")})
        except ZConfig.ConfigurationError:
            pass
        except Exception as e:  # noqa
            out.append(("duplicate-map:wrong-exception", repr(e)))
        else:
            out.append(("duplicate-names-accepted", "no entries; map ['Apply', 'apply']"))
    return ref, out


def evaluate(case):
    ast = case["schema"]
    try:
        sm = refload.compile_schema(ast)
        schema, _ = loadcheck.load_schema(ast)
    except Exception:
        return []
    if "texts" in case:
        return [failure(sig, case, d) for sig, d in check_sequence(schema, case["texts"], all_handler_names(ast))]
    _, fl = compare(ast, sm, schema, case["text"])
    return [failure(sig, case, d) for sig, d in (fl or [])]


def shards(tier, seed):
    n = 12000 if tier == "thorough" else 1300
    return [{"seed": seed, "lo": i * n, "hi": (i + 1) * n} for i in range(16)]


def levels(ref):
    # number of nesting levels that contribute entries: approximate by depth reached
    return ref.stats["nested"] + 1


def all_handler_names(ast):
    names = set()
    if ast.get("handler"):
        names.add(ast["handler"].lower())
    for cont in [ast] + ast["types"]:
        for it in cont["items"]:
            if it.get("handler"):
                names.add(it["handler"].lower())
    return names


def _calls_of(handler, names):
    """-> (len, [(name, id(value)) ...]) obtained by calling the handler with a map that has
    every handler name of the schema."""
    calls = []

    def rec(nm):
        return lambda value: calls.append((nm, id(value)))
    try:
        n = len(handler)
        handler({nm: rec(nm) for nm in names})
    except Exception as e:  # noqa
        return ("raises", repr(e))
    return (n, calls)


def check_sequence(schema, texts, names):
    """One ConfigLoader object serves several loads: the handler returned with an earlier
    configuration keeps describing THAT configuration (its entries, their number, the very
    value objects) whatever the loader is used for afterwards."""
    ZConfig = loadcheck.zc()
    import ZConfig.loader
    out = []
    ld = ZConfig.loader.ConfigLoader(schema)
    earlier = []
    for text in texts:
        got = loadcheck.real_load_with(ld, text, loadcheck.MAIN)
        for h, before, t0 in earlier:
            now = _calls_of(h, names)
            if now != before:
                out.append(("earlier-handler-changed-by-a-later-load", "handler of %r: %r, then %r" % (t0[:80], before, now)))
                break
        if out:
            break
        if got[0] == "ok":
            earlier.append((got[2], _calls_of(got[2], names), text))
            _KEEP.append(got[1])      # keep the configuration alive so that id() values stay meaningful
    del _KEEP[:]
    return out


_KEEP = []


def run_shard(spec):
    res = Result()
    counters = collections.Counter()
    for i in range(spec["lo"], spec["hi"]):
        ast, sm, texts = loadcheck.gen_case(spec["seed"], i, handlers=True)
        try:
            schema, xml = loadcheck.load_schema(ast)
        except Exception:  # noqa
            counters["schema-rejected"] += 1
            continue
        res.evaluations += 1
        for sig, d in check_sequence(schema, texts, all_handler_names(ast)):
            res.fail(sig, {"schema": ast, "texts": texts}, d)
        for k_, text in enumerate(texts):
            if (i + k_) % 4 == 0 and "%import" not in text:
                text = IMPORT_LINE + text
                counters["texts-with-%import"] += 1
            ref, fl = compare(ast, sm, schema, text)
            if ref.kind != "accept" or fl is None:
                counters["skipped"] += 1
                continue
            res.evaluations += 1
            n = len(ref.handlers)
            counters["entries:%s" % (n if n < 5 else "5+")] += 1
            if n >= 3 and ref.stats["nested"] >= 1:
                res.nontrivial(key=xml + "\0" + text)
                if len(res.samples) < 1:
                    res.sample({"schema_xml": xml, "text": text,
                                "expected_entries": [nm for nm, _ in ref.handlers]})
            for sig, d in fl:
                res.fail(sig, {"schema": ast, "text": text}, d)
    res.counters.update(counters)
    return res


def check_coverage(tier, c):
    if c.get("entries:5+", 0) + c.get("entries:3", 0) + c.get("entries:4", 0) < 200:
        return ["fewer than 200 texts with >= 3 handler entries"]
    return []
