"""C04 -- $-substitution computes exactly the documented replacement function.

Oracle: zcv.model.ref_subst / ref_isname (hand-written scanner, no ``re``).
Domain: (a) exhaustive strings over {$ { } ( ) a B _ 1 -} up to a length bound,
each under every defined/undefined assignment of the names it references (values
that themselves contain $-constructs; wrong-case decoy keys);
(b) Hypothesis: Unicode strings with $-constructs spliced in, random mappings,
mappings that only expose .get().
"""

import itertools
import os

from zcv import model
from zcv.core import Result, failure

ID = "C04"
LEVEL = "exploration"
RULE = ("(a) every string over the 10-character alphabet {$,{,},(,),a,B,_,1,-} up to the "
        "tier's length bound, crossed with every defined/undefined assignment of the names "
        "it references (mapping keys lower-case plus a wrong-case decoy, environment keys "
        "case-preserved plus a lower-cased decoy, values from {'', 'v', '$a', '${a}', '$$', "
        "'$(A)'}); (b) Hypothesis Unicode strings (<= 200) with $-constructs spliced in. "
        "Non-trivial = the string contains at least one '$'; distinct by (string, mapping, "
        "environment) -- enumerated cases are distinct by construction, random ones by hash.")
ASSUMPTIONS = [
    "reference scanner zcv.model.ref_subst is a faithful reading of docs/py-mod-subst.rst and the C04 statement",
    "zone U8: which error wins when a string holds several problems is not compared; the letter case of the reported name is pinned to the spelling of the reference (signature suffix ':pinned-spelling')",
    "zone U11: non-ASCII alphanumerics adjacent to a name are executed but not compared",
]
ALPHABET = "${}()aB_1-"
VALUES = ["", "v", "$a", "${a}", "$$", "$(A)", "caf\udce9 \u00e9"]     # the last: bytes that are not UTF-8, as the environment hands them over
DECOY = "<WRONG-CASE>"


class GetOnly:
    def __init__(self, d):
        self._d = d

    def get(self, k, default=None):
        return self._d.get(k, default)


class Scope(dict):
    """A scope with no names of its own (so it is false in a boolean context) that asks its
    parent -- a mapping like any other as far as get() goes."""

    def __init__(self, parent):
        dict.__init__(self)
        self._parent = parent

    def get(self, k, default=None):
        return self._parent.get(k, default)


import collections.abc        # noqa: E402


class Lazy(collections.abc.Mapping):
    """Values computed on demand, nothing stored: len() == 0, get() answers."""

    def __init__(self, d):
        self._d = d

    def __getitem__(self, k):
        return self._d[k]

    def __iter__(self):
        return iter(())

    def __len__(self):
        return 0


class _Cycle(Exception):
    pass


def check_nested(s, raw, env, env_names):
    """A mapping that expands the definitions it holds with substitute() itself, from inside the
    get() that the outer substitute() calls.  -> (sig, detail) or None"""
    ZConfig, S = _import()

    class Ref:
        depth = 0

        def get(self, n, default=None):
            if n not in raw:
                return default
            Ref.depth += 1
            try:
                if Ref.depth > 8:
                    raise _Cycle()
                return model.ref_subst(raw[n], self, env)
            finally:
                Ref.depth -= 1

    try:
        want = ("ok", model.ref_subst(s, Ref(), env))
    except (model.SubstSyntax, model.SubstMissing):
        want = ("error", None)
    except (model.Unspecified, _Cycle):
        return None
    names = set(env_names)
    for text in [s] + list(raw.values()):
        names.update(referenced_anywhere(text)[1])
    if names:
        _set_env(env, sorted(names))

    class Real:
        def get(self, n, default=None):
            if n not in raw:
                return default
            return S.substitute(raw[n], self)
    try:
        got = ("ok", S.substitute(s, Real()))
    except ZConfig.SubstitutionReplacementError as e:
        got = ("missing", e)
    except ZConfig.SubstitutionSyntaxError as e:
        got = ("syntax", e)
    except Exception as e:  # noqa
        return ("subst:nested:internal:%s" % type(e).__name__, repr(e))
    if want[0] == "ok":
        if got[0] != "ok":
            return ("subst:nested:rejected-but-valid", "raised %r, want %r" % (got[1], want[1]))
        if got[1] != want[1]:
            return ("subst:nested:wrong-result", "got %r want %r" % (got[1], want[1]))
        return None
    if got[0] == "ok":
        return ("subst:nested:accepted-but-invalid", "returned %r" % (got[1],))
    if got[0] == "missing":
        e = got[1]
        texts = [s] + list(raw.values())
        if e.source not in texts:
            return ("subst:nested:error-source", "source %r is none of the texts involved %r" % (e.source, texts))
        d_, e_ = referenced_anywhere(e.source)
        if str(e.name).lower() not in [x.lower() for x in d_ + e_]:
            return ("subst:nested:error-source", "the error names %r but its source %r holds no such reference" % (e.name, e.source))
    return None


def referenced_anywhere(s):
    """like referenced(), but does not stop at a malformed construct"""
    defs, envs = [], []
    for k in range(len(s)):
        if s[k] == "$":
            d, e = referenced(s[k:])
            defs.extend(d[:1])
            envs.extend(e[:1])
    return defs, envs


_mods = []


def _import():
    if not _mods:
        import ZConfig
        import ZConfig.substitution as S
        _mods.extend([ZConfig, S])
    return _mods


_saved_env = {}


def _set_env(env_defined, env_names):
    """env_defined: name -> value; env_names: every name that must be controlled."""
    for n in env_names:
        if n not in _saved_env:
            _saved_env[n] = os.environ.get(n)
        if n in env_defined:
            os.environ[n] = env_defined[n]
        else:
            os.environ.pop(n, None)


def _restore_env():
    for n, v in _saved_env.items():
        if v is None:
            os.environ.pop(n, None)
        else:
            os.environ[n] = v
    _saved_env.clear()


def check_subst(s, mapping, env, env_names, getonly=False):
    """-> (sig, detail) or None.  mapping/env as handed to the real code."""
    ZConfig, S = _import()
    if getonly == "nested":
        return check_nested(s, mapping, env, env_names)
    try:
        problems = model.subst_error_count(s, mapping, env)
        try:
            want = ("ok", model.ref_subst(s, mapping, env))
        except model.SubstSyntax:
            want = ("syntax", None)
        except model.SubstMissing as e:
            want = ("missing", e.name)
    except model.Unspecified:
        want = ("unspec", None)
        problems = []
    if env_names:
        _set_env(env, env_names)
    m = {True: GetOnly, "scope": Scope, "lazy": Lazy}.get(getonly, dict)(mapping)
    before = dict(mapping)
    try:
        got = ("ok", S.substitute(s, m))
    except ZConfig.SubstitutionReplacementError as e:
        got = ("missing", e)
    except ZConfig.SubstitutionSyntaxError as e:
        got = ("syntax", e)
    except Exception as e:  # noqa
        return ("subst:internal:%s" % type(e).__name__, repr(e))
    if got[0] == "missing" and not (hasattr(got[1], "name") and hasattr(got[1], "source")):
        return ("subst:error-without-name-or-source", repr(got[1]))
    if not getonly and m != before:
        return ("subst:mapping-mutated", "%r -> %r" % (before, m))
    if not getonly and mapping and want[0] == "ok" and got[0] == "ok" and (len(s) + len(mapping)) % 3 == 0:
        # the same text and the SAME mapping object again, after the application has changed a
        # value, and after it has replaced one name by another (same number of names)
        for step in ("value", "name"):
            k = sorted(m)[0]
            if step == "value":
                m[k] = m[k] + "~"
            else:
                m[k + "_"] = m.pop(k)
            try:
                want2 = ("ok", model.ref_subst(s, dict(m), env))
            except model.SubstSyntax:
                want2 = ("syntax", None)
            except model.SubstMissing:
                want2 = ("missing", None)
            except model.Unspecified:
                break
            try:
                got2 = ("ok", S.substitute(s, m))
            except ZConfig.SubstitutionReplacementError:
                got2 = ("missing", None)
            except ZConfig.SubstitutionSyntaxError:
                got2 = ("syntax", None)
            except Exception as e:  # noqa
                return ("subst:internal:%s" % type(e).__name__, repr(e))
            if got2 != want2:
                return ("subst:same-mapping-object-after-a-change-of-%s" % step,
                        "mapping now %r: got %r want %r" % (m, got2, want2))
    if want[0] == "unspec":
        return None
    if len(problems) >= 2:
        # zone U8: several problems in one string -- any of their classes may be reported
        kinds = {"syntax" if p == "syntax" else "missing" for p in problems}
        if got[0] not in kinds:
            return ("subst:accepted-but-invalid", "got %r want one of %r" % (got, kinds))
        if got[0] != want[0]:
            # zone U8, pinned: problems are reported in scanning order, left to right (the pinned
            # tree's behaviour; no document promises an order)
            return ("subst:wrong-error-class:pinned-order-U8", "got %s, the first problem from the left is %s" % (got[0], want[0]))
        if got[0] == "missing" and str(got[1].name).lower() != str(want[1]).lower():
            return ("subst:error-name:pinned-order-U8", "name %r, the first undefined reference from the left is %r" % (got[1].name, want[1]))
        if got[0] == "missing":
            names = {p[1].lower() for p in problems if p != "syntax"}
            if str(got[1].name).lower() not in names:
                return ("subst:error-name", "name %r not among %r" % (got[1].name, names))
            if got[1].source != s:
                return ("subst:error-source", "source %r" % (got[1].source,))
        return None
    if want[0] == "ok":
        if got[0] != "ok":
            return ("subst:rejected-but-valid", "raised %r, want %r" % (got[1], want[1]))
        if got[1] != want[1]:
            return ("subst:wrong-result", "got %r want %r" % (got[1], want[1]))
        if "$" not in s and got[1] != s:
            return ("subst:nodollar-not-identity", repr(got[1]))
        return None
    if got[0] == "ok":
        return ("subst:accepted-but-invalid", "returned %r, want %s" % (got[1], want[0]))
    if got[0] != want[0]:
        return ("subst:wrong-error-class", "got %s want %s" % (got[0], want[0]))
    if want[0] == "missing":
        e = got[1]
        if not isinstance(e.name, str) or e.name.lower() != want[1].lower():
            return ("subst:error-name", "name %r want %r" % (e.name, want[1]))
        if e.name != want[1]:
            # zone U8, pinned: the error carries the name as the reference spells it (the pinned
            # tree's behaviour; the docstring speaks of the lower-cased name)
            return ("subst:error-name:pinned-spelling", "name %r want %r" % (e.name, want[1]))
        if e.source != s:
            return ("subst:error-source", "source %r want %r" % (e.source, s))
    return None


def check_isname(s):
    _, S = _import()
    try:
        got = S.isname(s)
    except Exception as e:  # noqa
        return ("isname:internal:%s" % type(e).__name__, repr(e))
    want = model.ref_isname(s)
    if bool(got) != want or not isinstance(got, bool):
        return ("isname:mismatch", "isname(%r) = %r want %r" % (s, got, want))
    return None


def referenced(s):
    """names referenced via $name/${name} (as written) and via $(NAME), under a
    reading where every name is defined."""
    defs, envs = [], []

    # walk with the problem scanner: collect names
    i, n = 0, len(s)
    while i < n:
        if s[i] != "$":
            i += 1
            continue
        if i + 1 >= n:
            break
        d = s[i + 1]
        if d == "$":
            i += 2
            continue
        if d in "{(":
            close = "}" if d == "{" else ")"
            j = model._scan_name(s, i + 2)
            if j == i + 2 or j >= n or s[j] != close:
                break
            (defs if d == "{" else envs).append(s[i + 2:j])
            i = j + 1
            continue
        j = model._scan_name(s, i + 1)
        if j == i + 1:
            break
        defs.append(s[i + 1:j])
        i = j
    return defs, envs


def assignments(s):
    """Yield (mapping, env, env_names) for string s: every defined/undefined choice
    (capped at 3 distinct names -> 8 assignments, else all/none/alternating)."""
    defs, envs = referenced(s)
    dnames = sorted({d.lower() for d in defs})
    enames = sorted(set(envs))
    slots = [("d", n) for n in dnames] + [("e", n) for n in enames]
    if not slots:
        yield {}, {}, []
        return
    k = len(slots)
    if k <= 3:
        masks = range(1 << k)
    else:
        alt = sum(1 << i for i in range(0, k, 2))
        masks = [0, (1 << k) - 1, alt, ((1 << k) - 1) ^ alt]
    env_names = []
    for n in enames:
        env_names.append(n)
        if n.lower() != n:
            env_names.append(n.lower())
        if n.upper() != n:
            env_names.append(n.upper())
    vi = len(s)
    for mask in masks:
        mapping, env = {}, {}
        for idx, (kind, name) in enumerate(slots):
            defined = mask >> idx & 1
            val = VALUES[(vi + idx + mask) % len(VALUES)]
            if kind == "d":
                if defined:
                    mapping[name] = val
                # wrong-case decoys: the as-written spellings must never be consulted
                for w in defs:
                    if w.lower() == name and w != name:
                        mapping[w] = DECOY
            else:
                if defined:
                    env[name] = val
                if name.lower() != name:
                    env[name.lower()] = DECOY
                if name.upper() != name:
                    env[name.upper()] = DECOY
        yield mapping, env, env_names


def case_of(s, mapping, env, env_names, getonly=False):
    return {"kind": "subst", "s": s, "mapping": mapping, "env": env,
            "env_names": env_names, "getonly": getonly}


def evaluate(case):
    out = []
    try:
        if case["kind"] == "isname":
            r = check_isname(case["s"])
        else:
            r = check_subst(case["s"], case["mapping"], case["env"],
                            case.get("env_names", sorted(case["env"])),
                            case.get("getonly", False))
    finally:
        _restore_env()
    if r:
        out.append(failure(r[0], case, r[1]))
    return out


SHRINK_SKIP = {"kind", "getonly"}

# --------------------------------------------------------------------------


def shards(tier, seed):
    maxlen = 6 if tier == "quick" else 7
    prefixes = ["".join(p) for p in itertools.product(ALPHABET, repeat=2)]
    specs = [{"part": "exh-short", "maxlen": maxlen}]
    nsh = 48
    for i in range(nsh):
        specs.append({"part": "exh", "maxlen": maxlen, "prefixes": prefixes[i::nsh]})
    nrand = 16
    per = 1500 if tier == "quick" else 40000
    for i in range(nrand):
        specs.append({"part": "random", "seed": seed * 1000 + i, "n": per})
    specs.append({"part": "atheris", "seed": seed, "runs": 30000 if tier == "quick" else 1500000})
    return specs


def _run_string(res, s):
    r = check_isname(s)
    res.evaluations += 1
    if r:
        res.fail(r[0], {"kind": "isname", "s": s}, r[1])
    nt = "$" in s
    first = True
    for mapping, env, env_names in assignments(s):
        res.evaluations += 1
        if nt:
            res.nontrivial_count += 1
        r = check_subst(s, mapping, env, env_names)
        if r:
            res.fail(r[0], case_of(s, mapping, env, env_names), r[1])
        if nt and (len(s) * 7 + len(mapping)) % 16 == 0:
            # the same through mappings of other kinds
            for kind_ in ("scope", "lazy", "nested"):
                res.evaluations += 1
                res.count("mapping-kind:" + kind_)
                r = check_subst(s, mapping, env, env_names, kind_)
                if r:
                    res.fail(r[0], case_of(s, mapping, env, env_names, kind_), r[1])
        if first and nt and env_names and mapping:
            res.sample(case_of(s, mapping, env, env_names), limit=1)
        first = False
    if nt:
        res.count("strings-with-dollar")
    if "$(" in s:
        res.count("strings-with-env-ref")


def run_shard(spec):
    res = Result()
    try:
        if spec["part"] == "exh-short":
            for L in range(0, 2):
                for t in itertools.product(ALPHABET, repeat=L):
                    _run_string(res, "".join(t))
            res.exhaustive_parts.append(
                "all strings over %r of length <= %d, all assignments (<=3 names) of referenced names"
                % (ALPHABET, spec["maxlen"]))
            # longer strings built from two or three references: same name in different letter
            # case, the same reference twice, define- and environment-style references mixed
            refs = ["$a", "$A", "${a}", "${A}", "$(a)", "$(A)", "$(Ab)", "$(aB)", "$(AB)", "${aB}", "$aB",
                    "$$", "$_1", "$(_1)", "-"]
            for n in (2, 3):
                for t in itertools.product(refs, repeat=n):
                    _run_string(res, "".join(t))
                    if n == 2:
                        _run_string(res, ":".join(t))
            res.exhaustive_parts.append("all concatenations of 2 and 3 references drawn from %r" % (refs,))
            # characters that are letters only to case-insensitive or Unicode-aware matching (dotted
            # and dotless i, long s, Kelvin and Angstrom signs, micro sign, sharp s, ligatures,
            # combining and full-width forms, non-ASCII digits) in every position of a reference
            specials = "\u0130\u0131\u017f\u212a\u212b\u00b5\u00df\u1e9e\ufb01\u0345\uff41\uff11\u0661\u00aa\u00e9\u0391"
            shapes = ["$%s", "${%s}", "$(%s)", "$a%s", "${a%s}", "$(a%s)", "$a%sb", "${a%sb}", "$%sa", "${%sa}", "$(%sa)", "$_%s", "$a1%s"]
            for c in specials:
                for shape in shapes:
                    _run_string(res, shape % c)
                for w in (c, "a" + c, c + "a", "_" + c, "a1" + c):
                    r = check_isname(w)
                    res.evaluations += 1
                    if r:
                        res.fail(r[0], {"kind": "isname", "s": w}, r[1])
            res.exhaustive_parts.append("%d special letters/digits in %d reference shapes" % (len(specials), len(shapes)))
            # brackets inside brackets, beyond the length bound of the full alphabet: '$' followed
            # by every string of up to 7 characters over { ( ) { } a B }
            for L in range(1, 8):
                for t in itertools.product("(){}aB", repeat=L):
                    w = "".join(t)
                    if w[0] in "({" and ("(" in w[1:] or "{" in w[1:]):
                        _run_string(res, "$" + w)
            res.exhaustive_parts.append("'$' + every string of length <= 7 over '(){}aB' that opens a bracket and holds another opening bracket")
            # line ends, blanks and tabs are "other text" like any: every string of up to 6
            # characters over { $ { } a LF blank } that holds a '$' and a LF or blank, and the
            # same with CR / TAB / U+2028 in the place of LF
            n_ws = 0
            for L in range(2, 7):
                for t in itertools.product("${}a\n ", repeat=L):
                    w = "".join(t)
                    if "$" in w and ("\n" in w or " " in w):
                        _run_string(res, w)
                        n_ws += 1
                        if L <= 5 and "\n" in w:
                            for other in "\r\t\u2028":
                                _run_string(res, w.replace("\n", other))
            res.exhaustive_parts.append("every string of <= 6 characters over '${}a', line feed and blank with a '$' and a line feed or blank (%d), line feed also replaced by CR / TAB / U+2028" % n_ws)
            # size classes: the same short strings far inside a long one (>= 128, >= 4096 characters)
            for L in range(1, 5):
                for t in itertools.product(ALPHABET, repeat=L):
                    w = "".join(t)
                    if "$" not in w:
                        continue
                    _run_string(res, "x" * 130 + w)
                    _run_string(res, w + "-" * 140)
                    if L <= 3:
                        _run_string(res, "lorem ipsum " * 400 + w + " dolor" * 30)
            res.exhaustive_parts.append("every string of <= 4 characters containing '$', behind 130 / before 140 / inside 5000 plain characters")
        elif spec["part"] == "exh":
            for pre in spec["prefixes"]:
                for L in range(0, spec["maxlen"] - 1):
                    for t in itertools.product(ALPHABET, repeat=L):
                        _run_string(res, pre + "".join(t))
        elif spec["part"] == "atheris":
            import sys
            from zcv import fuzzrun
            fuzzrun.run(res, sys.modules[__name__], ID, spec["runs"], spec["seed"], max_len=64)
        else:
            _run_random(res, spec)
    finally:
        _restore_env()
    return res


# --------------------------------------------------------------------------
# random part


def _run_random(res, spec):
    import hypothesis
    from hypothesis import HealthCheck, Phase, given, settings
    from hypothesis import strategies as st

    name = st.text(alphabet="abcXYZ_019", min_size=1, max_size=6).filter(
        lambda n: n[0] not in "019")
    filler = st.text(max_size=12)
    ascii_filler = st.text(alphabet="ab1_-.{}() $", max_size=6)

    @st.composite
    def construct(draw):
        kind = draw(st.integers(0, 9))
        n = draw(name)
        if kind == 0:
            return "$$"
        if kind == 1:
            return "$" + n
        if kind == 2:
            return "${" + n + "}"
        if kind == 3:
            return "$(" + n + ")"
        if kind == 4:
            return "${" + n
        if kind == 5:
            return "$(" + n
        if kind == 6:
            return "$"
        if kind == 7:
            return "$" + draw(st.sampled_from(["-", "1", "{}", "()", " ", "}"]))
        if kind == 8:
            return "${" + n + "}" + n
        return "$" + n + draw(st.sampled_from(["-", ".", "$", "{", "("]))

    @st.composite
    def cases(draw):
        parts = draw(st.lists(st.one_of(construct(), filler, ascii_filler), max_size=12))
        s = "".join(parts)[:200]
        defs, envs = referenced(s)
        mapping, env = {}, {}
        values = st.one_of(st.sampled_from(VALUES), st.text(max_size=5))
        for d in sorted(set(defs)):
            if draw(st.integers(0, 3)):
                mapping[d.lower()] = draw(values)
            if d.lower() != d:
                mapping[d] = DECOY
        env_names = []
        for e in sorted(set(envs)):
            env_names.append(e)
            if draw(st.integers(0, 3)):
                env[e] = draw(st.sampled_from(VALUES + ["x y"]))
            for w in (e.lower(), e.upper()):
                if w != e and w not in envs:
                    env[w] = DECOY
                    env_names.append(w)
        extra = draw(st.dictionaries(name.map(str.lower), values, max_size=2))
        for k, v in extra.items():
            mapping.setdefault(k, v)
        return case_of(s, mapping, env, sorted(set(env_names)),
                       draw(st.sampled_from([False, True, "scope", "lazy", "nested", "nested"])))

    @hypothesis.seed(spec["seed"])
    @settings(max_examples=spec["n"], database=None, deadline=None, derandomize=False,
              phases=[Phase.generate], report_multiple_bugs=False,
              suppress_health_check=list(HealthCheck))
    @given(cases())
    def run(case):
        res.evaluations += 1
        s = case["s"]
        if "$" in s:
            res.nontrivial(key=case)
        try:
            model.ref_subst(s, case["mapping"], case["env"])
            res.count("random:accepted")
        except model.Unspecified:
            res.count("unspecified:U11")
        except model.SubstSyntax:
            res.count("random:syntax")
        except model.SubstMissing:
            res.count("random:missing")
        r = check_subst(s, case["mapping"], case["env"], case["env_names"], case["getonly"])
        if r:
            res.fail(r[0], case, r[1])
        r = check_isname(s[:8])
        if r:
            res.fail(r[0], {"kind": "isname", "s": s[:8]}, r[1])
        res.sample(case, limit=1)

    run()


def check_coverage(tier, counters):
    probs = []
    for k in ("random:accepted", "random:syntax", "random:missing"):
        if counters.get(k, 0) < 50:
            probs.append("class %s has only %d random cases" % (k, counters.get(k, 0)))
    return probs


# --------------------------------------------------------------------------
# Atheris stage (thorough tier; python3-vt): byte 0 picks the assignment, the rest is the string


def fuzz_decode(data):
    if not data:
        return []
    pick = data[0]
    s = data[1:].decode("utf-8", "replace")[:200]
    cases = [{"kind": "isname", "s": s[:40]}]
    asg = list(assignments(s))
    mapping, env, env_names = asg[pick % len(asg)]
    cases.append({"kind": "subst", "s": s, "mapping": mapping, "env": env, "env_names": env_names,
                  "getonly": bool(pick & 0x80)})
    return cases


def fuzz_seeds():
    out = []
    for i, s in enumerate(["$a", "${a}b", "$(A)", "$$", "x$a$b", "${aB}$(Ab)", "a $ b", "${a", "$(a", "$1", "é$é"]):
        out.append(bytes([i]) + s.encode("utf-8"))
    return out
