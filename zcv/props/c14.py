"""C14 -- command-line overrides act like editing the addressed keys in the text.

Metamorphic: load(T, overrides) must equal load(edit(T, overrides)) where edit() performs the
hand edit the statement describes on the text lines.  Malformed specifiers must be refused by
addOption; unresolvable paths and disallowed keys must be rejected; unconvertible values must
be reported as DataConversionError.
"""

import collections

from zcv import digest, gen, loadcheck, model, refdt, refload
from zcv.core import Result, failure

ID = "C14"
LEVEL = "exploration"
RULE = ("accepted texts of the C01 campaign with >= 1 section; 1..4 override specifiers per case "
        "addressing existing and missing keys and sections by name, by type and in mixed case at "
        "depths 0..3, for single keys, multikeys, wildcard keys and absent top-level keys, with "
        "convertible and unconvertible values and values containing '$' and '='; plus malformed "
        "specifiers. Non-trivial = an override below top level that replaces >= 1 line of the "
        "text, or that addresses a section by name when an earlier sibling has the same type; "
        "distinct by hash of (schema XML, text, overrides).")
ASSUMPTIONS = [
    "the hand edit is performed by zcv (lines of the addressed key dropped in the first matching child section in file order, override values appended with '$' doubled); key normalisation for 'the same key' uses the key type the schema AST gives the addressed section",
    "path components that are not basic-keys (U15) are not generated; values with leading/trailing blanks cannot be written in a text line, so 'verbatim' is checked for them on keys with an identity datatype by a separate probe (padding changes exactly that value)",
    "only the fact of rejection is compared, except: unconvertible value => DataConversionError, malformed specifier => ConfigurationSyntaxError from addOption",
]
MAIN = "file:///zcv/main.conf"


def parse_units(lines):
    """-> list of events per line (None when unclassifiable)."""
    out = []
    for l in lines:
        try:
            out.append(model.classify_line(l))
        except model.SyntaxReject:
            out.append(None)
    return out


def find_children(lines, evs, lo, hi):
    """Direct child sections within lines[lo:hi] -> list of (start, end_exclusive, type, name, empty)."""
    res = []
    i = lo
    while i < hi:
        e = evs[i]
        if e and e[0] == "open":
            if e[3]:
                res.append((i, i + 1, e[1], e[2], True))
                i += 1
                continue
            depth = 1
            j = i + 1
            while j < hi and depth:
                f = evs[j]
                if f and f[0] == "open" and not f[3]:
                    depth += 1
                elif f and f[0] == "close":
                    depth -= 1
                j += 1
            res.append((i, j, e[1], e[2], False))
            i = j
            continue
        i += 1
    return res


class Unresolved(Exception):
    pass


def edit(sm, text, overrides):
    """Apply the hand edit.  -> new text; raises Unresolved when a path names no section."""
    lines = text.split("\n")
    if lines and lines[-1] == "":
        lines.pop()
    MARK = "\x00zcv-override\x00"          # tags lines supplied by an earlier override
    for path, value in overrides:
        evs = parse_units([l.replace(MARK, "") for l in lines])
        lo, hi = 0, len(lines)
        ctype = sm.top
        insert_at = len(lines)
        for comp in path[:-1]:
            c = comp.lower()
            hit = None
            for ch in find_children(lines, evs, lo, hi):
                if (ch[3] and ch[3] == c) or ch[2] == c:
                    hit = ch
                    break
            if hit is None:
                raise Unresolved(comp)
            start, end, tname, name, empty = hit
            if empty:
                s = lines[start].strip()
                body = s[1:-1].rstrip()[:-1].rstrip()
                lines[start:start + 1] = ["<%s%s>" % (body, " " if body.endswith("/") else ""), "</%s>" % tname]
                evs = parse_units([l.replace(MARK, "") for l in lines])
                end = start + 2
            lo, hi = start + 1, end - 1
            insert_at = end - 1
            ctype = sm.types.get(tname)
            if ctype is None:
                raise Unresolved(comp)
        kt = ctype.kt
        want = refload.norm_key(kt, path[-1])
        # drop the direct key lines of this container with the same normalised key
        drop = []
        depth = 0
        for i in range(lo, hi):
            e = evs[i]
            if e is None:
                continue
            if e[0] == "open" and not e[3]:
                depth += 1
            elif e[0] == "close":
                depth -= 1
            elif e[0] == "key" and depth == 0 and want is not None and MARK not in lines[i]:
                try:
                    if refload.norm_key(kt, e[1]) == want:
                        drop.append(i)
                except Exception:
                    pass
        new = ["%s %s%s" % (path[-1], value.replace("$", "$$"), MARK)]
        lines[insert_at:insert_at] = new
        for i in reversed(drop):
            del lines[i]
    return "".join(l.replace(MARK, "") + "\n" for l in lines)


def spec(path, value):
    return "/".join(path) + "=" + value


def outcome(got):
    if got[0] == "ok":
        return ("ok", digest.digest(got[1]))
    if got[0] == "reject":
        return ("reject", type(got[1]).__name__)
    return ("internal", type(got[1]).__name__, got[2])


def handler_calls(ast, handler):
    """What the composite handler of a load delivers: -> (len, [(name, value digest) ...])"""
    import warnings
    names = set()
    if ast.get("handler"):
        names.add(ast["handler"].lower())
    for cont in [ast] + ast["types"]:
        for it in cont["items"]:
            if it.get("handler"):
                names.add(it["handler"].lower())
    calls = []
    rec = {n: (lambda v, n=n: calls.append((n, digest.digest(v)))) for n in names}
    with warnings.catch_warnings():
        warnings.simplefilter("ignore")
        handler(rec)
    return len(handler), calls


def copies(cfg):
    """copy.deepcopy and a pickle round trip of a returned configuration -> comparable summary"""
    import copy
    import pickle
    out = []
    for label, fn in (("deepcopy", copy.deepcopy), ("pickle", lambda c: pickle.loads(pickle.dumps(c)))):
        try:
            out.append((label, "ok", digest.digest(fn(cfg))))
        except RecursionError:
            out.append((label, "RecursionError", None))
        except Exception as e:  # noqa
            out.append((label, type(e).__name__, None))
    return out


def compare(ast, sm, schema, text, overrides, extras=False):
    """overrides: list of [path list, value].  -> (kind, [(sig, detail)])"""
    out = []
    specs = [spec(p, v) for p, v in overrides]
    raw_ov = loadcheck.real_load(schema, text, url=MAIN, overrides=specs)
    with_ov = outcome(raw_ov)
    if with_ov[0] == "internal":
        out.append(("internal:%s:%s" % (with_ov[1], with_ov[2]), "overrides %r" % (specs,)))
        return "internal", out
    # the same through one loader object used twice: overrides must apply to every load
    ZConfig = loadcheck.zc()
    from ZConfig import cmdline
    ld = cmdline.ExtendedConfigLoader(schema)
    try:
        for sp in specs:
            ld.addOption(sp)
    except ZConfig.ConfigurationError:
        ld = None
    if ld is not None:
        for nth in (1, 2):
            r = outcome(loadcheck.real_load_with(ld, text, MAIN))
            if r[0] != with_ov[0] or (r[0] == "ok" and digest.first_diff(with_ov[1], r[1])):
                out.append(("reused-loader-load-%d-differs" % nth, "%s vs %s ; overrides %r" % (r[0], with_ov[0], specs)))
                break
    # an extended loader that was given no option at all behaves like the plain loader
    plain = outcome(loadcheck.real_load(schema, text, url=MAIN))
    none = outcome(loadcheck.real_load_with(cmdline.ExtendedConfigLoader(schema), text, MAIN))
    if plain[0] != none[0] or (plain[0] == "ok" and digest.first_diff(plain[1], none[1])):
        out.append(("extended-loader-without-options-differs", "%s vs %s" % (none[0], plain[0])))
    try:
        edited = edit(sm, text, overrides)
    except Unresolved as e:
        if with_ov[0] != "reject":
            out.append(("override-for-missing-section-accepted", "component %s of %r" % (e, specs)))
        return "unresolved", out
    except refload._Unspec:
        return "unspec", out
    raw_edit = loadcheck.real_load(schema, edited, url=MAIN)
    by_edit = outcome(raw_edit)
    if by_edit[0] == "internal":
        return "edit-internal", out
    if with_ov[0] != by_edit[0]:
        out.append(("override-differs-from-edit:%s-vs-%s" % (with_ov[0], by_edit[0]),
                    "overrides %r ; edited text %r" % (specs, edited)))
    elif with_ov[0] == "ok":
        d = digest.first_diff(by_edit[1], with_ov[1])
        if d:
            out.append(("override-differs-from-edit:tree", "%s ; overrides %r" % (d, specs)))
        else:
            # what else the two loads return: the composite handler, and objects that can be
            # copied and pickled (or cannot) alike
            try:
                h1, h2 = handler_calls(ast, raw_ov[2]), handler_calls(ast, raw_edit[2])
            except Exception as e:  # noqa
                h1, h2 = ("handler raises", type(e).__name__), None
            if h1 != h2:
                out.append(("override-differs-from-edit:handler", "%r with overrides, %r for the edited text ; overrides %r"
                            % (str(h1)[:200], str(h2)[:200], specs)))
            if extras:
                c1, c2 = copies(raw_ov[1]), copies(raw_edit[1])
                for a_, b_ in zip(c1, c2):
                    if a_[:2] != b_[:2] or (a_[1] == "ok" and (digest.first_diff(b_[2], a_[2]) or digest.first_diff(with_ov[1], a_[2]))):
                        out.append(("override-differs-from-edit:%s" % a_[0], "%s with overrides, %s for the edited text ; overrides %r"
                                    % (a_[1], b_[1], specs)))
    elif by_edit[1] == "DataConversionError" and with_ov[1] != "DataConversionError" \
            and getattr(raw_edit[1], "value", None) in [v.replace("$", "$$") for _p, v in overrides] \
            and all(refload.KEYTYPES[kt_](p_[-1])[0] == "ok" for p_, _v in overrides for kt_ in refload.KEYTYPES):
        out.append(("unconvertible-override-not-a-conversion-error", "%s for %r" % (with_ov[1], specs)))
    return with_ov[0], out


def _map_leaves(d, fn):
    if isinstance(d, dict):
        return {k: _map_leaves(v, fn) for k, v in d.items()}
    if isinstance(d, list):
        return [_map_leaves(v, fn) for v in d]
    if isinstance(d, str):
        return fn(d)
    return d


PADDINGS = [("  ", ""), ("", " \t"), (" ", "  "), ("\t", ""), ("\u2003", "\u00a0")]


def check_verbatim(schema, text, overrides, idx, pad):
    """'the override values are supplied ... verbatim': for a key whose datatype is the identity,
    padding the value of one specifier with blanks changes exactly that value in the result."""
    marker = "zcv verbatim"     # the interior blank keeps list-valued datatypes from yielding it as a leaf
    padded = pad[0] + marker + pad[1]
    a = [list(o) for o in overrides]
    b = [list(o) for o in overrides]
    a[idx][1] = marker
    b[idx][1] = padded
    ra = outcome(loadcheck.real_load(schema, text, url=MAIN, overrides=[spec(p, v) for p, v in a]))
    rb = outcome(loadcheck.real_load(schema, text, url=MAIN, overrides=[spec(p, v) for p, v in b]))
    if "internal" in (ra[0], rb[0]):
        return []
    if ra[0] != rb[0]:
        return [("override-value-not-verbatim:verdict", "%s with %r, %s with %r" % (ra[0], spec(*a[idx]), rb[0], spec(*b[idx])))]
    if ra[0] == "ok":
        want = _map_leaves(ra[1], lambda x: padded if x == marker else x)
        d = digest.first_diff(want, rb[1])
        if d:
            return [("override-value-not-verbatim:tree", "%s ; specifier %r" % (d, spec(*b[idx])))]
    return []


def check_malformed(schema, specs):
    ZConfig = loadcheck.zc()
    from ZConfig import cmdline
    out = []
    for s in specs:
        loader = cmdline.ExtendedConfigLoader(schema)
        try:
            loader.addOption(s)
        except ZConfig.ConfigurationSyntaxError:
            continue
        except Exception as e:  # noqa
            out.append(("malformed-specifier:wrong-exception", "%r -> %r" % (s, e)))
            continue
        out.append(("malformed-specifier-accepted", repr(s)))
    # the same through the convenience entry points, which add the specifiers themselves
    import io
    for s in specs:
        for entry in ("loadConfigFile", "loadConfig"):
            try:
                if entry == "loadConfigFile":
                    ZConfig.loadConfigFile(schema, io.StringIO("# empty\n"), MAIN, [s])
                else:
                    ZConfig.loadConfig(schema, "file:///zcv/does/not/exist.conf", [s])
            except ZConfig.ConfigurationSyntaxError:
                continue
            except ZConfig.ConfigurationError as e:
                out.append(("malformed-specifier-not-refused-when-added:%s" % entry, "%r -> %s: %s" % (s, type(e).__name__, str(e)[:120])))
                continue
            except Exception as e:  # noqa
                out.append(("malformed-specifier:wrong-exception:%s" % entry, "%r -> %r" % (s, e)))
                continue
            out.append(("malformed-specifier-accepted:%s" % entry, repr(s)))
    return out


def evaluate(case):
    try:
        sm = refload.compile_schema(case["schema"])
        schema, _ = loadcheck.load_schema(case["schema"])
    except Exception:
        return []
    if case.get("malformed"):
        return [failure(sig, case, d) for sig, d in check_malformed(schema, case["malformed"])]
    if case.get("verbatim"):
        idx, pad = case["verbatim"]
        try:
            return [failure(sig, case, d) for sig, d in check_verbatim(schema, case["text"], case["overrides"], idx, pad)]
        except Exception:
            return []
    for p, v in case["overrides"]:
        if not p or "" in p or any(refdt.basic_key(c)[0] != "ok" for c in p[:-1]) or v != v.strip() or "\n" in v \
                or "/" in p[-1] or "=" in "".join(p) or p[-1] != p[-1].strip() or not p[-1].split() or len(p[-1].split()) > 1 \
                or p[-1][0] in "<%#" or "(" in p[-1] or ")" in p[-1]:
            return []
    try:
        _, fl = compare(case["schema"], sm, schema, case["text"], case["overrides"], extras=True)
    except Exception:
        return []
    return [failure(sig, case, d) for sig, d in fl]


def shards(tier, seed):
    n = 9000 if tier == "thorough" else 900
    return [{"seed": seed, "lo": i * n, "hi": (i + 1) * n} for i in range(16)]


VALUES = ["v", "12", "yes", "x y", "a$b", "$zd", "a=b", "", "65536", "abc", "10kb", "host:80", "1.5",
          "$(ZD)/x", "$(ZCV_EMPTY)", "${zd}", "$$", "k=v=w"]


def gen_overrides(rng, sm, text):
    """1..4 overrides guided by the sections present in the text."""
    lines = text.split("\n")
    evs = parse_units(lines)
    res = []
    nontrivial = False
    gen_overrides.later_sibling = False
    gen_overrides.identity = []       # indices of overrides that address a key with an identity datatype
    for _ in range(rng.randint(1, 4)):
        path = []
        lo, hi = 0, len(lines)
        ctype = sm.top
        depth = rng.choice([0, 1, 1, 2, 3])
        ok = True
        for _d in range(depth):
            kids = find_children(lines, evs, lo, hi)
            if not kids or rng.random() < 0.08:
                path.append(rng.choice(["nosuch", "t9", "n1"]))
                ok = False
                break
            k = rng.randrange(len(kids))
            ch = kids[k]
            by_name = ch[3] is not None and rng.random() < 0.5
            comp = ch[3] if by_name else ch[2]
            if refdt.basic_key(comp)[0] != "ok":
                comp = ch[2]
                by_name = False
            if by_name and any(o[2] == ch[2] for o in kids[:k]):
                nontrivial = True
            path.append(gen.mixcase(rng, comp))
            # the section actually selected is the first match in file order
            c = comp.lower()
            sel = next(o for o in kids if (o[3] and o[3] == c) or o[2] == c)
            if sel is not ch and rng.random() < 0.5:
                # the rest of the path is written with a LATER sibling of the same type in mind: it
                # still addresses the first one, which may lack what the path goes on to name
                sel = ch
                gen_overrides.later_sibling = True
            lo, hi = sel[0] + 1, (sel[1] - 1 if not sel[4] else sel[0] + 1)
            ctype = sm.types.get(sel[2])
            if ctype is None:
                ok = False
                break
        key = None
        if ok and ctype is not None:
            cands = [it for it in ctype.items if not it.is_section()]
            r = rng.random()
            if cands and r < 0.8:
                it = rng.choice(cands)
                if it.wild:
                    key = rng.choice(gen.FREE_KEYS[ctype.kt])
                else:
                    key = it.name
                key = gen.mixcase(rng, key) if ctype.kt != "identifier" else key
                dt = it.dt
                if dt in ("string", "null"):
                    gen_overrides.identity.append(len(res))
                if rng.random() < 0.75:
                    val = rng.choice(gen.GOOD.get(dt, gen.GOOD["string"]))
                else:
                    val = rng.choice(VALUES)
                # does the text hold a line for it?
                if path and any(e and e[0] == "key" and e[1].lower() == key.lower() for e in evs[lo:hi]):
                    nontrivial = True
            elif r < 0.9:
                key, val = rng.choice(["nosuchkey", "alpha", "1x"]), rng.choice(VALUES)
            else:
                secs = [it for it in ctype.items if it.is_section() and not it.wild]
                key, val = (secs[0].name if secs else "zz"), "v"
        if key is None:
            key, val = rng.choice(["alpha", "kx"]), rng.choice(VALUES)
        val = val.strip()
        res.append([path + [key], val])
    return res, nontrivial


def run_shard(spec_):
    res = Result()
    counters = collections.Counter()
    for i in range(spec_["lo"], spec_["hi"]):
        rng = loadcheck.case_rng(spec_["seed"] + 1414, i)
        ast = gen.gen_schema(rng, handlers=i % 3 == 0)
        sm = refload.compile_schema(ast)
        try:
            schema, xml = loadcheck.load_schema(ast)
        except Exception:  # noqa
            counters["schema-rejected"] += 1
            continue
        if i % 10 == 0:
            bad = ["novalue", "a//b=1", "/a=1", "a/=1", "", "a/b", "=", "x/y//z=v"]
            rng.shuffle(bad)
            res.evaluations += 1
            for sig, d in check_malformed(schema, bad[:4]):
                res.fail(sig, {"schema": ast, "malformed": bad[:4]}, d)
            counters["malformed-specifier-batches"] += 1
        for _t in range(3):
            text = gen.gen_text(rng, sm, 0)
            ref = refload.ref_load(ast, {MAIN: text}, MAIN, sm=sm)
            if ref.kind != "accept" or ref.stats["sections"] < 1:
                counters["base-skipped"] += 1
                continue
            for _o in range(4):
                overrides, nt = gen_overrides(rng, sm, text)
                if gen_overrides.later_sibling:
                    counters["path-written-for-a-later-sibling-of-the-same-type"] += 1
                res.evaluations += 1
                kind, fl = compare(ast, sm, schema, text, overrides, extras=(i + _o) % 6 == 0)
                counters["outcome:" + kind] += 1
                counters["depth:%d" % max(len(p) - 1 for p, _ in overrides)] += 1
                if nt:
                    res.nontrivial(key=[xml, text, overrides])
                    if len(res.samples) < 1 and kind == "ok":
                        res.sample({"schema_xml": xml, "text": text,
                                    "overrides": [spec(p, v) for p, v in overrides]})
                for sig, d in fl:
                    res.fail(sig, {"schema": ast, "text": text, "overrides": overrides}, d)
                if gen_overrides.identity and kind == "ok":
                    idx = rng.choice(gen_overrides.identity)
                    pad = rng.choice(PADDINGS)
                    res.evaluations += 1
                    counters["verbatim-probes"] += 1
                    for sig, d in check_verbatim(schema, text, overrides, idx, pad):
                        res.fail(sig, {"schema": ast, "text": text, "overrides": overrides,
                                       "verbatim": [idx, list(pad)]}, d)
    res.counters.update(counters)
    return res


def check_coverage(tier, c):
    problems = []
    for k in ("outcome:ok", "outcome:reject", "outcome:unresolved", "depth:2"):
        if c.get(k, 0) < 50:
            problems.append("class %s has only %d cases" % (k, c.get(k, 0)))
    return problems
