"""C20 -- logger sections produce exactly the configured logging setup, once.

Domain: logger / eventlog sections over every documented level name in every letter case and
the integers -2..52; 0..3 logfile handlers over {STDOUT, STDERR, temp file} x {plain, size
rotation, timed rotation, inconsistent option sets} x delay x encoding x handler level;
format strings from a grammar over the record fields, conversion types, widths, escapes,
constants, unknown fields and positional placeholders in all four styles with and without
arbitrary-fields; then sequences of up to 6 operations from {call factory, call again,
factory.reopen(), loghandler.reopenFiles(), loghandler.closeFiles(), drop a configuration}.
Oracle: a reference model of the statement (level table, option rules, handler list,
independent rendering of the format, model set of live file handlers).
"""

import collections
import gc
import io
import itertools
import logging
import logging.handlers
import os
import shutil
import string
import sys
import tempfile
import time

from zcv import loadcheck
from zcv.core import Result, failure

ID = "C20"
LEVEL = "exploration"
RULE = ("(1) every letter-case variant of the 11 documented level names and every integer "
        "-2..52 as logger, eventlog and handler level (exhaustive); (2) every combination of "
        "path in {STDOUT, STDERR, file} with each subset of {max-size, old-files, when, "
        "interval, delay, encoding} (exhaustive, 3 x 64); (3) random configurations with 0..3 "
        "logfile handlers and format strings generated from a grammar (15 record fields, "
        "conversions s d f r, widths, %% {{ $$ escapes, control-character escapes, constants, "
        "unknown fields, positional placeholders) in the four styles with arbitrary-fields "
        "on/off; (4) operation sequences of length <= 6 over {call, call again, reopen, "
        "reopenFiles, closeFiles, drop}. Non-trivial = an accepted section with >= 1 handler "
        "and a non-default format, or an operation sequence with a reopen/close after a drop, "
        "or a level spelling other than the lower-case name; distinct by hash of (text, ops).")
ASSUMPTIONS = [
    "the reference in this module (level table, option rules, rendering by %-formatting / str.format / string.Template on the record's attributes) is the trusted reading of the statement and docs/logging-components.rst",
    "not asserted (U19): 'old-files' without max-size/when, 'interval' without 'when', max-size together with when; which format strings are refused at load time (only load/run consistency of accepted ones)",
    "syslog / http / email / win32 handlers are not instantiated (no network); logging global state is saved and restored around every case",
]
ALL_EXHAUSTIVE = False

LEVELS = {"critical": 50, "fatal": 50, "error": 40, "warn": 30, "warning": 30, "info": 20,
          "blather": 15, "debug": 10, "trace": 5, "all": 1, "notset": 0}
SCHEMA = """<schema>
  <import package="ZConfig.components.logger"/>
  <section type="eventlog" name="*" attribute="eventlog"/>
  <multisection type="logger" name="*" attribute="loggers"/>
</schema>
"""
FIELDS = ["name", "levelno", "levelname", "pathname", "filename", "module", "lineno", "created",
          "asctime", "msecs", "relativeCreated", "thread", "message", "process", "funcName"]
NUMERIC = {"levelno": "d", "lineno": "d", "created": "f", "msecs": "f", "relativeCreated": "f",
           "thread": "d", "process": "d"}

_S = {}


def schema():
    if "s" not in _S:
        _S["s"] = loadcheck.load_schema_xml(SCHEMA)
    return _S["s"]


# ------------------------------------------------------------------ logging state


class LogState:
    """Save / restore the global state of the logging module around one case."""

    def __enter__(self):
        from ZConfig.components.logger import loghandler
        self.lh = loghandler
        root = logging.getLogger()
        self.root_handlers = list(root.handlers)
        self.root_level = root.level
        self.reopenable = list(getattr(loghandler, "_reopenable_handlers", []))
        self.names = set(logging.Logger.manager.loggerDict)
        self.tmp = tempfile.mkdtemp(prefix="zcv-c20-")
        return self

    def __exit__(self, *a):
        root = logging.getLogger()
        for h in list(root.handlers):
            if h not in self.root_handlers:
                root.removeHandler(h)
                try:
                    h.close()
                except Exception:
                    pass
        root.setLevel(self.root_level)
        for n in list(logging.Logger.manager.loggerDict):
            if n not in self.names:
                lg = logging.Logger.manager.loggerDict[n]
                for h in list(getattr(lg, "handlers", [])):
                    lg.removeHandler(h)
                    try:
                        h.close()
                    except Exception:
                        pass
                del logging.Logger.manager.loggerDict[n]
        if hasattr(self.lh, "_reopenable_handlers"):
            self.lh._reopenable_handlers[:] = self.reopenable
        shutil.rmtree(self.tmp, ignore_errors=True)


def load(text):
    return loadcheck.real_load(schema(), text, url=None)


def _raised_in_logger_component(exc):
    import traceback
    for fr in traceback.extract_tb(exc.__traceback__):
        if "/components/logger/" in fr.filename.replace("\\", "/"):
            return True
    return False


def unescape(fmt):
    for a, b in (("\\n", "\n"), ("\\t", "\t"), ("\\b", "\b"), ("\\f", "\f"), ("\\r", "\r")):
        fmt = fmt.replace(a, b)
    return fmt


def make_record():
    rec = logging.LogRecord("zcv.c20.rec", logging.WARNING, "/some/path/mod.py", 42,
                            "the %s message", ("actual",), None, func="fn")
    return rec


def expected_render(style, fmt, datefmt, rec):
    d = dict(rec.__dict__)
    d["message"] = rec.getMessage()
    d["asctime"] = time.strftime(datefmt, time.localtime(rec.created))
    if style == "classic":
        return fmt % d
    if style == "format":
        return fmt.format(**d)
    if style == "template":
        return string.Template(fmt).substitute(d)
    return string.Template(fmt).safe_substitute(d)


# ------------------------------------------------------------------ reference for one logfile section


def ref_handler(h):
    """h: dict(path kind, max_size, old_files, when, interval, delay, encoding) -> 'accept' class | 'reject' | 'unspec'"""
    std = h["path"] in ("STDOUT", "STDERR")
    if h["path"] == "MISSINGDIR":
        h = dict(h, path="FILE")
    ms, of, wh, iv = h.get("max-size"), h.get("old-files"), h.get("when"), h.get("interval")
    ms_on = bool(ms) and ms not in ("0",)
    of_on = bool(of) and of != "0"
    iv_on = bool(iv) and iv != "0"
    wh_on = bool(wh)
    delay_on = (h.get("delay") or "").lower() in ("yes", "true", "on")
    enc_on = bool(h.get("encoding"))
    if std:
        if ms_on or of_on or wh_on or delay_on or enc_on:
            return "reject"
        if iv_on:
            return "unspec"
        return "stream"
    if ms_on and wh_on:
        return "unspec"
    if (ms_on or wh_on) and not of_on:
        return "reject"
    if ms_on:
        return "rotating"
    if wh_on:
        return "timed"
    if of_on or iv_on:
        return "unspec"
    return "file"


def handler_lines(h, indent="  "):
    lines = [indent + "<logfile>", indent + "  path " + h["path_text"]]
    for k in ("max-size", "old-files", "when", "interval", "delay", "encoding", "level", "style",
              "format", "dateformat", "arbitrary-fields"):
        if h.get(k) is not None:
            lines.append("%s  %s %s" % (indent, k, h[k].replace("$", "$$")))
    lines.append(indent + "</logfile>")
    return lines


def config_text(cfg):
    lines = []
    for sec in cfg:
        lines.append("<%s%s>" % (sec["type"], (" " + sec["secname"]) if sec.get("secname") else ""))
        if sec.get("name") is not None:
            lines.append("  name " + sec["name"])
        if sec.get("level") is not None:
            lines.append("  level " + sec["level"])
        if sec.get("propagate") is not None:
            lines.append("  propagate " + sec["propagate"])
        for h in sec["handlers"]:
            lines.extend(handler_lines(h))
        lines.append("</%s>" % sec["type"])
    return "".join(l + "\n" for l in lines)


def ref_level(text):
    t = text.lower()
    if t in LEVELS:
        return LEVELS[t]
    try:
        v = int(t)
    except ValueError:
        return None
    if v < 0 or v > 50:
        return None
    return v


# ------------------------------------------------------------------ the check of one configuration


def check_config(cfg, ops, tmp, ls):
    """cfg: list of section dicts (see gen_config).  -> (status, [(sig, detail)])"""
    from ZConfig.components.logger import loghandler
    out = []
    # materialise file paths
    shared_path = os.path.join(tmp, "log-shared.log")
    nshare = [0]
    dot_used = []
    for sec in cfg:
        for i, h in enumerate(sec["handlers"]):
            if h["path"] == "FILE" and (h.get("share") or (nshare[0] == 0 and any(hh.get("share") for s2 in cfg for hh in s2["handlers"])
                                                             and ref_handler(h) == "file")):
                h["path_text"] = shared_path
                nshare[0] += 1
            elif h["path"] == "FILE" and h.get("dotname") and not dot_used:
                # a file in the working directory (which is the scratch directory for the duration
                # of the case) whose NAME is that of a standard stream: './STDOUT' is a file
                h["path_text"] = "./" + h["dotname"]
                dot_used.append(1)
            elif h["path"] == "FILE":
                h["path_text"] = os.path.join(tmp, "log-%s-%d.log" % (sec.get("name") or "root", i))
            elif h["path"] == "MISSINGDIR":
                h["path_text"] = os.path.join(tmp, "later", "log-%s-%d.log" % (sec.get("name") or "root", i))
            else:
                h["path_text"] = h["path"]
    text = config_text(cfg)
    # --- expected verdict
    verdict = "accept"
    for sec in cfg:
        if sec.get("level") is not None and ref_level(sec["level"]) is None:
            verdict = "reject"
        if sec.get("propagate") is not None and sec["propagate"].lower() not in ("yes", "no", "true", "false", "on", "off"):
            verdict = "reject"
        for h in sec["handlers"]:
            r = ref_handler(h)
            if r == "reject" or (h.get("level") is not None and ref_level(h["level"]) is None):
                verdict = "reject"
            elif r == "unspec" and verdict != "reject":
                verdict = "unspec"
            if h.get("format") is not None or (h.get("style") or "classic") != "classic":
                if verdict == "accept":
                    verdict = "format-dependent"
    got = load(text)
    if got[0] == "internal":
        if _raised_in_logger_component(got[1]):
            # raised by a datatype function of the logger component itself while the section is
            # converted: the section is refused (pass-through clause of C07)
            got = ("reject", got[1])
        else:
            return "internal", [("internal:%s:%s" % (type(got[1]).__name__, got[2]), "%r for %r" % (got[1], text))]
    if verdict == "reject":
        if got[0] == "ok":
            out.append(("accepted-but-statement-refuses", text))
        return "reject", out
    if got[0] != "ok":
        if verdict == "accept":
            out.append(("rejected-but-statement-accepts", "%s: %s ; %r" % (type(got[1]).__name__, got[1], text)))
        return "rejected", out
    if verdict == "unspec":
        return "unspec", out
    config = got[1]
    factories = []
    if config.eventlog is not None:
        factories.append(config.eventlog)
    factories.extend(config.loggers)
    if len(factories) != len(cfg):
        out.append(("wrong-number-of-factories", "%d for %d sections" % (len(factories), len(cfg))))
        return "accepted", out
    rec = make_record()
    live = []          # (handler, spec) of file handlers created and still referenced
    created = {}
    attempts = {}      # section index -> handlers of the target logger before the first attempt
    dropped = []       # files of file handlers the application has dropped (and removed)
    root = logging.getLogger()
    for step, op in enumerate(ops):
        kind = op[0]
        if kind in ("call", "again", "startup"):
            i = op[1] % len(cfg)
            sec, fac = cfg[i], factories[i]
            if fac is None:
                continue
            first = i not in created
            target = root if sec["type"] == "eventlog" or sec.get("name") is None else logging.getLogger(sec["name"])
            before = list(target.handlers)
            if first:
                attempts.setdefault(i, list(before))
            missing = [h for h in sec["handlers"] if h["path"] == "MISSINGDIR" and not os.path.isdir(os.path.dirname(h["path_text"]))
                       and (h.get("delay") or "").lower() not in ("yes", "true", "on")]
            if first:
                # the logger (and a descendant) has been used before it is configured, as
                # libraries do while they are imported
                for lv in (5, 10, 20, 30, 40, 50):
                    target.isEnabledFor(lv)
                    if target is not root:
                        logging.getLogger(target.name + ".zcvchild").isEnabledFor(lv)
            try:
                if kind == "startup":
                    fac.startup()          # "make sure we've instantiated the logger"
                lg = fac()
            except Exception as e:  # noqa
                if missing and isinstance(e, OSError):
                    continue          # the log directory does not exist yet: the caller may retry
                out.append(("factory-raises-for-loaded-configuration:%s" % type(e).__name__,
                            "%s ; %r" % (str(e)[:200], text)))
                return "accepted", out
            if lg is not target:
                out.append(("factory-returns-wrong-logger", "%r for %r" % (lg, sec.get("name"))))
                continue
            if not first:
                if lg is not created[i] or list(lg.handlers) != before:
                    out.append(("second-call-changes-logger", "handlers before %d after %d" % (len(before), len(lg.handlers))))
                continue
            created[i] = lg
            want_level = ref_level(sec["level"]) if sec.get("level") is not None else 20
            if lg.level != want_level:
                out.append(("wrong-logger-level", "level %r gives %r expected %r" % (sec.get("level"), lg.level, want_level)))
            else:
                # ... and the logger acts on it
                for lg_ in [lg] + ([logging.getLogger(lg.name + ".zcvchild")] if lg is not root else []):
                    eff = lg_.getEffectiveLevel()
                    acts = [lv for lv in (5, 10, 20, 30, 40, 50) if lg_.isEnabledFor(lv)]
                    want_acts = [lv for lv in (5, 10, 20, 30, 40, 50) if lv >= eff and lv > logging.root.manager.disable]
                    if acts != want_acts:
                        out.append(("logger-does-not-act-on-its-level", "level %r: %s enabled for %r, expected %r"
                                    % (sec.get("level"), "logger" if lg_ is lg else "a descendant", acts, want_acts)))
                        break
            if sec["type"] == "logger":
                wantp = True if sec.get("propagate") is None else sec["propagate"].lower() in ("yes", "true", "on")
                if bool(lg.propagate) != wantp:
                    out.append(("wrong-propagate", "%r gives %r" % (sec.get("propagate"), lg.propagate)))
            new = [h for h in lg.handlers if h not in attempts.get(i, before)]
            specs = sec["handlers"]
            if not specs:
                if len(new) != 1 or not isinstance(new[0], logging.NullHandler):
                    out.append(("handlerless-logger-wrong-handlers", repr(new)))
                continue
            if len(new) != len(specs):
                out.append(("wrong-number-of-handlers", "%d handlers for %d sections" % (len(new), len(specs))))
                continue
            for h, spec in zip(new, specs):
                kindh = ref_handler(spec)
                ok = {"stream": lambda: type(h) is logging.StreamHandler and h.stream is (sys.stdout if spec["path"] == "STDOUT" else sys.stderr),
                      "file": lambda: isinstance(h, logging.FileHandler) and not isinstance(h, logging.handlers.BaseRotatingHandler),
                      "rotating": lambda: isinstance(h, logging.handlers.RotatingFileHandler),
                      "timed": lambda: isinstance(h, logging.handlers.TimedRotatingFileHandler)}[kindh]()
                if not ok:
                    out.append(("wrong-handler-kind", "%s for %r" % (type(h).__name__, kindh)))
                    continue
                if kindh != "stream":
                    if os.path.abspath(h.baseFilename) != os.path.abspath(spec["path_text"]):
                        out.append(("wrong-handler-file", h.baseFilename))
                    live.append((h, spec))
                    if os.path.abspath(h.baseFilename) in dropped:
                        dropped.remove(os.path.abspath(h.baseFilename))     # the file has a live handler again
                    if kindh == "rotating" and (h.backupCount != int(spec["old-files"])):
                        out.append(("wrong-rotation-parameters", "backupCount %r" % h.backupCount))
                    if kindh == "timed" and (h.backupCount != int(spec["old-files"]) or h.when != spec["when"].upper()):
                        out.append(("wrong-rotation-parameters", "backupCount %r when %r" % (h.backupCount, h.when)))
                    if kindh == "timed":
                        unit = {"S": 1, "M": 60, "H": 3600, "D": 86400, "MIDNIGHT": 86400}.get(spec["when"].upper())
                        if spec["when"].upper().startswith("W"):
                            unit = 7 * 86400
                        want_iv = unit * int(spec.get("interval") or 1) if unit else None
                        if want_iv is not None and h.interval != want_iv:
                            out.append(("wrong-rotation-parameters:interval", "interval %r for when=%s interval=%r" % (h.interval, spec["when"], spec.get("interval"))))
                    if kindh == "rotating" and h.maxBytes != {"10kb": 10240, "1mb": 1048576, "5": 5}.get(spec["max-size"], h.maxBytes):
                        out.append(("wrong-rotation-parameters:max-size", "maxBytes %r for %r" % (h.maxBytes, spec["max-size"])))
                    if bool(getattr(h, "delay", False)) != ((spec.get("delay") or "").lower() in ("yes", "true", "on")):
                        out.append(("wrong-delay", "delay %r for %r" % (getattr(h, "delay", None), spec.get("delay"))))
                    want_enc = spec.get("encoding")
                    if want_enc and (h.encoding or "").lower().replace("_", "-") != want_enc.lower():
                        out.append(("wrong-encoding", "encoding %r for %r" % (h.encoding, want_enc)))
                wl = ref_level(spec["level"]) if spec.get("level") is not None else 0
                if h.level != wl:
                    out.append(("wrong-handler-level", "%r gives %r expected %r" % (spec.get("level"), h.level, wl)))
                style = (spec.get("style") or "classic").lower()
                fmt = unescape(spec["format"]) if spec.get("format") is not None else "------\n%(asctime)s %(levelname)s %(name)s %(message)s"
                datefmt = spec.get("dateformat") or "%Y-%m-%dT%H:%M:%S"
                arb = (spec.get("arbitrary-fields") or "false").lower() in ("yes", "true", "on")
                try:
                    rendered = h.format(make_record_copy(rec))
                except Exception as e:  # noqa
                    if not arb:
                        out.append(("formatting-an-ordinary-record-raises:%s" % type(e).__name__,
                                    "style %s format %r: %s" % (style, fmt, str(e)[:200])))
                    continue
                try:
                    want = expected_render(style, fmt, datefmt, rec)
                except Exception:
                    want = None
                if style == "classic" and positional_percent(fmt):
                    want = None        # '%s' applied to the whole record mapping: not a meaningful format
                if want is not None and rendered != want:
                    out.append(("wrong-rendering", "style %s format %r: %r expected %r" % (style, fmt, rendered, want)))
        elif kind == "mkdir":
            os.makedirs(os.path.join(tmp, "later"), exist_ok=True)
        elif kind == "emit":
            # the application logs something: a handler that opens its file lazily has a stream now
            for h, spec in live:
                if getattr(h, "_zcv_closed", False) or getattr(h, "_zcv_ignore", False):
                    continue
                keep = h.formatter
                h.setFormatter(logging.Formatter("%(message)s"))    # what the format makes of a record is checked elsewhere
                try:
                    h.handle(logging.LogRecord("zcv.emit", 50, __file__, 1, "zcv emitted record", (), None))
                except Exception as e:  # noqa
                    out.append(("emit-raises:%s" % type(e).__name__, str(e)[:200]))
                finally:
                    h.setFormatter(keep)
                if h.stream is None or h.stream.closed:
                    out.append(("live-handler-has-no-stream-after-a-record", type(h).__name__))
        elif kind == "reopen":
            i = op[1] % len(cfg)
            if i in created and factories[i] is not None:
                streams = [(h, h.stream) for h, s in live if h in created[i].handlers]
                closed_plain = []
                for h, _old in streams:
                    if getattr(h, "_zcv_closed", False):
                        if type(h).__name__ == "FileHandler" and not getattr(h, "_zcv_ignore", False) and h.stream is None:
                            # a plain file handler that was closed is not alive any more: a reopen
                            # is not to act on it (rule of the pinned tree; for the rotating
                            # handlers, whose reopen is a roll-over, this stays unspecified)
                            closed_plain.append((h, os.path.exists(h.baseFilename)))
                        else:
                            h._zcv_ignore = True     # reopening a rotating handler that was closed: not specified
                try:
                    factories[i].reopen()
                except Exception as e:  # noqa
                    out.append(("reopen-raises:%s" % type(e).__name__, str(e)[:200]))
                    continue
                for h, existed in closed_plain:
                    counters_closed_reopen[0] += 1
                    if h.stream is not None or (not existed and os.path.exists(h.baseFilename)):
                        out.append(("factory.reopen-acts-on-a-closed-handler:pinned-closed-plain-handler",
                                    "closed %s has stream %r after reopen()" % (type(h).__name__, h.stream)))
                        h._zcv_ignore = True
                for h, old in streams:
                    if any(h is c for c, _e in closed_plain):
                        continue
                    spec = next(s for hh, s in live if hh is h)
                    _check_reopened(out, h, old, spec, "factory.reopen")
        elif kind == "reopenFiles":
            streams = [(h, h.stream, s) for h, s in live]
            closed_before = [h for h, s in live if getattr(h, "_zcv_closed", False)]
            try:
                loghandler.reopenFiles()
            except Exception as e:  # noqa
                out.append(("reopenFiles-raises:%s" % type(e).__name__, str(e)[:200]))
                continue
            for h, old, spec in streams:
                if getattr(h, "_zcv_ignore", False):
                    continue
                if getattr(h, "_zcv_closed", False):
                    if h.stream is not old:
                        out.append(("reopenFiles-touches-closed-handler", repr(h)))
                else:
                    _check_reopened(out, h, old, spec, "reopenFiles")
        elif kind == "closeFiles":
            try:
                loghandler.closeFiles()
            except Exception as e:  # noqa
                out.append(("closeFiles-raises:%s" % type(e).__name__, str(e)[:200]))
                continue
            for h, spec in live:
                if getattr(h, "_zcv_ignore", False):
                    continue
                if h.stream is not None and not h.stream.closed:
                    out.append(("closeFiles-leaves-a-live-handler-open", "%s (%d live file handlers)" % (type(h).__name__, len(live))))
                    break
            for h, spec in live:
                h._zcv_closed = True
        elif kind == "closeOne":
            # the application closes one file handler itself: it is no longer a live handler
            cands = [h for h, s_ in live if not getattr(h, "_zcv_closed", False)]
            if cands:
                h1 = cands[op[1] % len(cands)]
                try:
                    h1.close()
                except Exception as e:  # noqa
                    out.append(("handler-close-raises:%s" % type(e).__name__, str(e)[:200]))
                h1._zcv_closed = True
                h1 = None
            cands = None
        elif kind == "drop":
            i = op[1] % len(cfg)
            if i in created:
                lg = created.pop(i)
                mine = [h for h, s in live if h in lg.handlers]
                paths = [os.path.abspath(h.baseFilename) for h in mine]
                for h in list(lg.handlers):
                    if h not in ls.root_handlers:
                        lg.removeHandler(h)
                live[:] = [(h, s) for h, s in live if h not in mine]
                factories[i] = None
                # nothing in this function may keep the dropped handlers alive
                del mine
                h = hh = old = lg = fac = target = None
                config = got = None      # the configuration object holds every factory
                new = before = streams = closed_before = cands = h1 = None
                attempts.pop(i, None)
                gc.collect()
                # the application has let go of these handlers: whatever happens to their
                # files from now on is the component acting on handlers that are not alive
                still = set(os.path.abspath(x.baseFilename) for x, _s in live)
                for pth in paths:
                    if pth not in still:
                        try:
                            os.remove(pth)
                        except OSError:
                            pass
                        dropped.append(pth)
        if dropped and kind in ("reopen", "reopenFiles", "closeFiles"):
            back = [pth for pth in dropped if os.path.exists(pth)]
            if back:
                out.append(("%s-acts-on-a-dropped-handler" % kind, "file re-created: %s" % os.path.basename(back[0])))
                dropped[:] = [pth for pth in dropped if pth not in back]
    if dropped:
        # final probe: a reopen must leave the files of dropped handlers alone
        try:
            loghandler.reopenFiles()
        except Exception:  # noqa
            pass
        back = [pth for pth in dropped if os.path.exists(pth)]
        if back:
            out.append(("reopenFiles-acts-on-a-dropped-handler", "file re-created: %s" % os.path.basename(back[0])))
    return "accepted", out


def positional_percent(fmt):
    i = 0
    while i < len(fmt):
        if fmt[i] == "%":
            if fmt[i + 1:i + 2] == "%":
                i += 2
                continue
            if fmt[i + 1:i + 2] != "(":
                return True
        i += 1
    return False


def make_record_copy(rec):
    r = logging.LogRecord(rec.name, rec.levelno, rec.pathname, rec.lineno, rec.msg, rec.args, None, func=rec.funcName)
    r.created = rec.created
    r.msecs = rec.msecs
    r.relativeCreated = rec.relativeCreated
    r.thread = rec.thread
    r.process = rec.process
    return r


counters_closed_reopen = [0]


def _check_reopened(out, h, old, spec, what):
    delayed = (spec.get("delay") or "").lower() in ("yes", "true", "on")
    if getattr(h, "_zcv_closed", False):
        return
    if delayed and old is None:
        return
    if h.stream is None or h.stream.closed:
        if not delayed:
            out.append(("%s-leaves-live-handler-without-open-stream" % what, type(h).__name__))
    elif old is not None and h.stream is old:
        out.append(("%s-does-not-reopen" % what, type(h).__name__))
    if old is not None and not old.closed:
        out.append(("%s-leaves-old-stream-open" % what, type(h).__name__))


# ------------------------------------------------------------------ generators


def gen_format(rng, style):
    parts = []
    for _ in range(rng.randint(0, 4)):
        r = rng.random()
        f = rng.choice(FIELDS)
        conv = NUMERIC.get(f, "s")
        if r < 0.6:
            if style == "classic":
                c = rng.choice([conv, conv, "s", "r"])
                w = rng.choice(["", "", "-8", "10", ".3" if c == "f" else ""])
                parts.append("%%(%s)%s%s" % (f, w, c))
            elif style == "format":
                spec = rng.choice(["", "", "!r", ":>10", ":.3f" if conv == "f" else ""])
                parts.append("{%s%s}" % (f, spec))
            else:
                parts.append(rng.choice(["$%s", "${%s}"]) % f)
        elif r < 0.7:
            parts.append({"classic": "%%", "format": "{{x}}", "template": "$$", "safe-template": "$$"}[style])
        elif r < 0.8:
            parts.append(rng.choice(["text", "a-b", "100", "\\n", "\\t", ":", "[x]", "\\r\\n", "\\n\\r", "\\r",
                                     "\\b\\f", "\\t\\n", "a\\r\\nb", "\\\\n"]))
        elif r < 0.87:
            parts.append({"classic": "%(nosuchfield)s", "format": "{nosuchfield}", "template": "${nosuchfield}",
                          "safe-template": "$nosuchfield"}[style])
        elif r < 0.92:
            parts.append({"classic": "%s", "format": rng.choice(["{}", "{0}"]), "template": "$", "safe-template": "$"}[style])
        elif r < 0.96:
            parts.append({"classic": "%(message)", "format": "{message", "template": "${message", "safe-template": "${message"}[style])
        else:
            parts.append({"classic": "%(levelno)s", "format": "{levelno:d}", "template": "$levelno", "safe-template": "$levelno"}[style])
    sep = rng.choice([" ", " ", "", " - "])
    s = sep.join(parts).strip()
    return s if s else rng.choice(["hello", "%(message)s" if style == "classic" else "x"])


def gen_handler(rng):
    h = {"path": rng.choice(["STDOUT", "STDERR", "FILE", "FILE", "FILE"])}
    if h["path"] == "FILE" and rng.random() < 0.12:
        h["dotname"] = rng.choice(["STDOUT", "STDERR"])
    r = rng.random()
    if r < 0.45:
        pass
    elif r < 0.6:
        h["max-size"] = rng.choice(["10kb", "1mb", "5"])
        h["old-files"] = rng.choice(["1", "3", "3", "0"])
    elif r < 0.75:
        h["when"] = rng.choice(["D", "H", "midnight", "W0", "m"])
        h["old-files"] = rng.choice(["1", "2", "2", "0"])
        if rng.random() < 0.5:
            h["interval"] = rng.choice(["1", "2"])
    elif r < 0.82:
        h["max-size"] = "10kb"
    elif r < 0.88:
        h["when"] = "D"
    elif r < 0.92:
        h["when"] = "D"
        h["max-size"] = "1kb"
        h["old-files"] = "1"
    elif r < 0.96:
        h["old-files"] = "2"
    else:
        h["interval"] = "2"
    if rng.random() < 0.2:
        h["delay"] = rng.choice(["yes", "true", "no"])
    if rng.random() < 0.15:
        h["encoding"] = rng.choice(["utf-8", "latin-1"])
    if rng.random() < 0.5:
        h["level"] = rng.choice(list(LEVELS) + ["25", "0", "50", "51", "-1", "WARN", "Info"])
    if rng.random() < 0.6:
        style = rng.choice(["classic", "format", "template", "safe-template"])
        if style != "classic" or rng.random() < 0.5:
            h["style"] = rng.choice([style, style.upper()])
        h["format"] = gen_format(rng, style)
        if rng.random() < 0.3:
            h["arbitrary-fields"] = rng.choice(["true", "false"])
        if rng.random() < 0.2:
            h["dateformat"] = rng.choice(["%H:%M", "%Y"])
    return h


def gen_config(rng, idx):
    cfg = []
    if rng.random() < 0.4:
        cfg.append({"type": "eventlog", "level": rng.choice([None, "info", "ERROR", "blather", "10", "0", "notset"]),
                    "handlers": [gen_handler(rng) for _ in range(rng.choice([0, 1, 1, 2]))]})
    for i in range(rng.choice([0, 1, 1, 2])):
        cfg.append({"type": "logger", "name": "zcv.c20.n%d.l%d" % (idx, i),
                    "level": rng.choice([None, "info", "Warn", "critical", "0", "NOTSET", "50", "all"]),
                    "propagate": rng.choice([None, None, "yes", "no", "false"]),
                    "handlers": [gen_handler(rng) for _ in range(rng.choice([0, 1, 2, 3]))]})
    if not cfg:
        cfg.append({"type": "logger", "name": "zcv.c20.n%d.only" % idx, "level": None, "propagate": None,
                    "handlers": [gen_handler(rng)]})
    if rng.random() < 0.15:
        # the same style and format twice, arbitrary-fields on for the first and off for the second
        for sec in cfg:
            hs = [h for h in sec["handlers"] if h.get("format") is not None]
            if hs and len(sec["handlers"]) < 4:
                h1 = hs[0]
                h2 = dict(h1)
                h1["arbitrary-fields"] = "true"
                h2["arbitrary-fields"] = "false"
                sec["handlers"].insert(sec["handlers"].index(h1) + 1, h2)
                break
    if rng.random() < 0.15:
        # the same style and format in two handler sections that differ in their date format only
        hs = [h for sec in cfg for h in sec["handlers"]]
        if len(hs) >= 2:
            h1, h2 = rng.sample(hs, 2)
            style = rng.choice(["classic", "format", "template", "safe-template"])
            fmt = {"classic": "%(asctime)s %(message)s", "format": "{asctime} {message}",
                   "template": "${asctime} ${message}", "safe-template": "${asctime}|${message}"}[style]
            for h, df in ((h1, "%H:%M"), (h2, rng.choice(["%Y", None]))):
                h["style"], h["format"] = style, fmt
                h.pop("arbitrary-fields", None)
                if df is None:
                    h.pop("dateformat", None)
                else:
                    h["dateformat"] = df
    # two live handlers on one file (each is a handler of its own: reopened, closed, counted)
    fileh = [h for sec in cfg for h in sec["handlers"] if h["path"] == "FILE" and ref_handler(h) == "file"]
    if len(fileh) >= 2 and rng.random() < 0.5:
        fileh[1]["share"] = True
    # a name on the section itself (the slot allows it) is not the name of the logger
    for j, sec in enumerate(cfg):
        if rng.random() < 0.3:
            sec["secname"] = rng.choice(["Main%d" % j, "zcv.c20.secname%d" % j, "s%d" % j, "Root%d" % j])
    if len(cfg) == 1 and cfg[0]["type"] == "logger" and rng.random() < 0.15:
        cfg[0]["name"] = None          # no 'name' key: the root logger
        cfg[0]["secname"] = "zcv.c20.unkeyed%d" % idx
    return cfg


def gen_ops(rng, n, retry=False):
    if retry:
        k = rng.randrange(4)
        return [("call", k), ("mkdir", 0), ("call", k), ("again", k), ("reopenFiles", 0), ("closeFiles", 0)]
    if n >= 2 and rng.random() < 0.25:
        # all loggers configured in order, one of the earlier ones dropped, then a reopen: every
        # handler that is still alive is reopened, whatever was registered before it
        k = rng.randrange(n - 1)
        return [("call", j) for j in range(n)] + [("drop", k), ("reopenFiles", 0)] + [("reopenFiles", 0)] * rng.randint(0, 1)
    if rng.random() < 0.1:
        # records are written, then the files are reopened (and written to again) and closed
        k = rng.randrange(4)
        return [("call", k), ("emit", 0), ("reopenFiles", 0), ("emit", 0), rng.choice([("reopen", k), ("reopenFiles", 0)]), ("closeFiles", 0)]
    if rng.random() < 0.1:
        # everything closed, then one logger asked to reopen its handlers
        k = rng.randrange(4)
        return [("call", k), ("closeFiles", 0)] + [("call", k)] * rng.randint(0, 1) + [("reopen", k), ("reopenFiles", 0)]
    ops = [("call", rng.randrange(4))]
    for _ in range(rng.randint(0, 5)):
        k = rng.choice(["call", "again", "reopen", "reopenFiles", "closeFiles", "drop", "call", "startup", "closeOne", "emit", "emit"])
        ops.append((k, rng.randrange(4)))
    return ops


def check_configure(cfg, ls):
    """ZConfig.configureLoggers(text): every <logger> section of the text is loaded and its factory
    called once -- the loggers end up as check_config establishes for factories called by hand."""
    import ZConfig
    out = []
    secs = [s for s in cfg if s["type"] == "logger"]
    for sec in secs:
        for i, h in enumerate(sec["handlers"]):
            h["path_text"] = os.path.join(ls.tmp, "cl-%s-%d.log" % (sec["name"], i)) if h["path"] == "FILE" else h["path"]
    text = config_text(secs)
    verdict = "accept"
    for sec in secs:
        if sec.get("level") is not None and ref_level(sec["level"]) is None:
            verdict = "reject"
        if sec.get("propagate") is not None and sec["propagate"].lower() not in ("yes", "no", "true", "false", "on", "off"):
            verdict = "reject"
        for h in sec["handlers"]:
            r = ref_handler(h)
            if r == "reject" or (h.get("level") is not None and ref_level(h["level"]) is None):
                verdict = "reject"
            elif r == "unspec" and verdict != "reject":
                verdict = "unspec"
            if h.get("format") is not None or (h.get("style") or "classic") != "classic":
                if verdict == "accept":
                    verdict = "format-dependent"
    before = {s["name"]: list(logging.getLogger(s["name"]).handlers) for s in secs}
    try:
        ZConfig.configureLoggers(text)
    except ZConfig.ConfigurationError:
        if verdict == "accept":
            out.append(("configureLoggers-rejects-acceptable-text", text[:300]))
        return "rejected", out
    except Exception as e:  # noqa
        if _raised_in_logger_component(e) and verdict != "accept":
            return "rejected", out
        out.append(("configureLoggers-raises:%s" % type(e).__name__, "%s ; %r" % (str(e)[:200], text[:300])))
        return "rejected", out
    if verdict == "reject":
        out.append(("configureLoggers-accepts-what-the-statement-refuses", text[:300]))
        return "accepted", out
    if verdict == "unspec":
        return "unspec", out
    for sec in secs:
        lg = logging.getLogger(sec["name"])
        want_level = ref_level(sec["level"]) if sec.get("level") is not None else 20
        if lg.level != want_level:
            out.append(("configureLoggers:wrong-logger-level", "%r gives %r" % (sec.get("level"), lg.level)))
        wantp = True if sec.get("propagate") is None else sec["propagate"].lower() in ("yes", "true", "on")
        if bool(lg.propagate) != wantp:
            out.append(("configureLoggers:wrong-propagate", "%r gives %r" % (sec.get("propagate"), lg.propagate)))
        new = [h for h in lg.handlers if h not in before[sec["name"]]]
        nwant = len(sec["handlers"]) or 1
        if len(new) != nwant:
            out.append(("configureLoggers:wrong-number-of-handlers", "%d handlers for %d sections" % (len(new), len(sec["handlers"]))))
        else:
            for h, spec in zip(new, sec["handlers"]):
                wl = ref_level(spec["level"]) if spec.get("level") is not None else 0
                if h.level != wl:
                    out.append(("configureLoggers:wrong-handler-level", "%r gives %r" % (spec.get("level"), h.level)))
    return "accepted", out


def run_configure(cfg):
    with LogState() as ls:
        try:
            return check_configure(cfg, ls)
        finally:
            gc.collect()


def run_case(cfg, ops):
    with LogState() as ls:
        old_cwd = os.getcwd()
        os.chdir(ls.tmp)
        try:
            return check_config(cfg, ops, ls.tmp, ls)
        finally:
            os.chdir(old_cwd)
            gc.collect()


def evaluate(case):
    try:
        if case.get("configure"):
            _, fl = run_configure(case["config"])
        else:
            _, fl = run_case(case["config"], [tuple(o) for o in case["ops"]])
    except (KeyError, IndexError, TypeError, AttributeError, ValueError, ZeroDivisionError):
        return []
    return [failure(sig, case, d) for sig, d in fl]


NO_SHRINK = True


def shards(tier, seed):
    specs = [{"kind": "levels", "part": i} for i in range(4)]
    specs.append({"kind": "options"})
    for i in range(6):
        specs.append({"kind": "formats", "part": i, "of": 6})
    n = 3500 if tier == "thorough" else 350
    for i in range(16):
        specs.append({"kind": "random", "seed": seed, "lo": i * n, "hi": (i + 1) * n})
    return specs


def case_variants(w):
    for bits in itertools.product((0, 1), repeat=len(w)):
        yield "".join(c.upper() if b else c for c, b in zip(w, bits))


CLASSIC_CONVS = "diouxXeEfFgGcrsa"
CLASSIC_MODS = ["", "-8", "08", ".3", "+", "#"]
FORMAT_SPECS = ["", "!r", "!s", "!a", ":d", ":x", ":X", ":b", ":o", ":e", ":f", ":g", ":n", ":s", ":c", ":%",
                ":>10", ":03d", ":.3f", ":,", ":_", ":+", ":<8s", ":#x"]


def format_matrix():
    """Every field x conversion type of the classic and format styles, both template spellings,
    each with arbitrary-fields unset / true / false (exhaustive)."""
    out = []
    for f in FIELDS + ["nosuchfield"]:
        for c in CLASSIC_CONVS:
            for m in CLASSIC_MODS:
                out.append(("classic", "%%(%s)%s%s" % (f, m, c)))
        for sp in FORMAT_SPECS:
            out.append(("format", "{%s%s}" % (f, sp)))
        for st in ("template", "safe-template"):
            out.append((st, "$%s" % f))
            out.append((st, "${%s}" % f))
            out.append((st, "pre$%s.post" % f))
    # constants and fragments of each style's syntax, with and without its introducer character
    for const in ("hello", "}", "end }", "{", "{ x", "}{", "{}", "{{}}", "}}", "{{", "a } b {message}", "{message} }",
                  "%", "100%", "%%", "% s", "%(", "%(message", "%(message)", "$", "$$", "a $", "${", "${message",
                  "$(message)", "{message!z}", "{message:", "%(message)z", "{0}", "{message[0]}", "{message.x}",
                  "%(message)s %", "{message}{", "$message$"):
        for st in ("classic", "format", "template", "safe-template"):
            out.append((st, const))
    return out


def run_shard(spec):
    res = Result()
    counters = collections.Counter()
    if spec["kind"] == "formats":
        matrix = format_matrix()
        k = 0
        for j, (style, fmt) in enumerate(matrix):
            if j % spec["of"] != spec["part"]:
                continue
            for arb in (None, "true", "false"):
                k += 1
                h = {"path": "STDOUT", "style": style, "format": fmt}
                if style == "classic" and k % 2:
                    del h["style"]
                if arb:
                    h["arbitrary-fields"] = arb
                cfg = [{"type": "logger", "name": "zcv.c20.fm.p%dk%d" % (spec["part"], k), "level": None,
                        "propagate": None, "handlers": [h]}]
                res.evaluations += 1
                status, fl = run_case(cfg, [("call", 0), ("again", 0)])
                counters["formats:%s:%s" % (style, status)] += 1
                if status == "accepted":
                    res.nontrivial()
                    if len(res.samples) < 1:
                        res.sample({"style": style, "format": fmt, "arbitrary-fields": arb})
                for sig, d in fl:
                    res.fail(sig, {"config": cfg, "ops": [["call", 0], ["again", 0]]}, d)
        if spec["part"] == 0:
            res.exhaustive_parts.append("every record field x conversion type x modifier of the classic style, every field x format spec of the format style, both template spellings, with arbitrary-fields unset/true/false")
        res.counters.update(counters)
        return res
    if spec["kind"] == "levels":
        spellings = []
        for nm in LEVELS:
            spellings.extend(case_variants(nm))
        spellings.extend(str(i) for i in range(-2, 53))
        spellings.extend(["", "inf", "warnx", "5.0", " 10", "+7", "0x10", "debugg"])
        part = spellings[spec["part"]::4]
        for j, sp in enumerate(part):
            for where in ("logger", "eventlog", "handler"):
                if where == "handler":
                    cfg = [{"type": "logger", "name": "zcv.c20.lv.h%d" % j, "level": None, "propagate": None,
                            "handlers": [{"path": "STDOUT", "level": sp}]}]
                elif where == "logger":
                    cfg = [{"type": "logger", "name": "zcv.c20.lv.l%d" % j, "level": sp, "propagate": None, "handlers": []}]
                else:
                    cfg = [{"type": "eventlog", "level": sp, "handlers": []}]
                if sp == "" and where != "handler":
                    cfg[0]["level"] = " "
                res.evaluations += 1
                status, fl = run_case(cfg, [("call", 0), ("again", 0)])
                counters["level:" + status] += 1
                if sp.lower() in LEVELS and sp != sp.lower():
                    res.nontrivial()
                for sig, d in fl:
                    res.fail(sig, {"config": cfg, "ops": [["call", 0], ["again", 0]]}, d)
        if spec["part"] == 0:
            res.exhaustive_parts.append("every letter-case variant of the 11 level names and every integer -2..52 as logger, eventlog and handler level")
            res.sample({"level-spellings": part[:5]})
        res.counters.update(counters)
        return res
    if spec["kind"] == "options":
        opts = [("max-size", "10kb"), ("old-files", "2"), ("when", "D"), ("interval", "2"), ("delay", "yes"), ("encoding", "utf-8")]
        k = 0
        for path in ("STDOUT", "STDERR", "FILE"):
            for bits in itertools.product((0, 1), repeat=len(opts)):
                h = {"path": path}
                for (name, val), b in zip(opts, bits):
                    if b:
                        h[name] = val
                k += 1
                cfg = [{"type": "logger", "name": "zcv.c20.opt.o%d" % k, "level": None, "propagate": None, "handlers": [h]}]
                res.evaluations += 1
                status, fl = run_case(cfg, [("call", 0), ("reopenFiles", 0), ("closeFiles", 0)])
                counters["options:" + status] += 1
                res.nontrivial()
                for sig, d in fl:
                    res.fail(sig, {"config": cfg, "ops": [["call", 0], ["reopenFiles", 0], ["closeFiles", 0]]}, d)
        res.exhaustive_parts.append("path in {STDOUT, STDERR, file} x every subset of {max-size, old-files, when, interval, delay, encoding}")
        res.counters.update(counters)
        return res
    for i in range(spec["lo"], spec["hi"]):
        rng = loadcheck.case_rng(spec["seed"] + 2020, i)
        cfg = gen_config(rng, i)
        retry = rng.random() < 0.12
        if retry:
            cands = [h for sec in cfg for h in sec["handlers"] if h["path"] == "FILE"]
            if cands:
                rng.choice(cands)["path"] = "MISSINGDIR"
                counters["retry-after-failed-call"] += 1
            else:
                retry = False
        ops = gen_ops(rng, len(cfg), retry)
        res.evaluations += 1
        counters_closed_reopen[0] = 0
        status, fl = run_case(cfg, ops)
        counters["reopen-of-a-closed-plain-handler"] += counters_closed_reopen[0]
        counters["random:" + status] += 1
        kinds = [o[0] for o in ops]
        for kk in set(kinds):
            counters["op:" + kk] += 1
        fmt = any(h.get("format") for s in cfg for h in s["handlers"])
        if fmt:
            counters["with-format:" + status] += 1
        after_drop = "drop" in kinds and any(k in ("reopenFiles", "closeFiles") for k in kinds[kinds.index("drop"):])
        if (status == "accepted" and fmt) or after_drop:
            res.nontrivial(key=[cfg, ops])
            if len(res.samples) < 1 and status == "accepted" and fmt:
                res.sample({"text": config_text_safe(cfg), "ops": ops})
        for sig, d in fl:
            res.fail(sig, {"config": cfg, "ops": [list(o) for o in ops]}, d)
        if i % 3 == 0 and any(s["type"] == "logger" for s in cfg) and all(s.get("name") for s in cfg if s["type"] == "logger"):
            import copy
            cfg2 = copy.deepcopy(cfg)
            for s in cfg2:
                if s["type"] == "logger":
                    s["name"] = s["name"] + ".cl"
            res.evaluations += 1
            st2, fl2 = run_configure(cfg2)
            counters["configureLoggers:" + st2] += 1
            for sig, d in fl2:
                res.fail(sig, {"config": cfg2, "ops": [], "configure": True}, d)
    res.counters.update(counters)
    return res


def config_text_safe(cfg):
    import copy
    c = copy.deepcopy(cfg)
    for sec in c:
        for i, h in enumerate(sec["handlers"]):
            h["path_text"] = h["path"] if h["path"] not in ("FILE", "MISSINGDIR") else "<tmp>/log-%d.log" % i
    return config_text(c)


def check_coverage(tier, c):
    problems = []
    for k in ("random:accepted", "random:reject", "with-format:accepted", "op:drop", "op:closeFiles", "op:reopenFiles", "reopen-of-a-closed-plain-handler"):
        if c.get(k, 0) < 30:
            problems.append("class %s has only %d cases" % (k, c.get(k, 0)))
    return problems
