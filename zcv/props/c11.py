"""C11 -- schema composition features mean the same as their written-out expansion.

Metamorphic, model-free: a plain schema AST (with 'extends' between section types) is turned
into (1) its expansion -- every derived type written out -- and (2) a composed form using
prefixes (absolute/relative, nested), schema-level extends of 1..3 base files, and component
packages imported in diamond shape (with file=, repeated imports, relative package names).
For every text (valid and invalid) the two must give equal outcomes.
"""

import collections
import io

from zcv import compose, digest, gen, loadcheck, refload
from zcv.core import Result, failure

ID = "C11"
LEVEL = "exploration"
RULE = ("random schemas of the C01 family using extends chains (<= 3), key-type/datatype "
        "overrides, wildcard defaults re-keyed under a derived key type, dotted datatypes and key "
        "types under zcv.dt; composed form = random combination of prefixes (document and "
        "sectiontype level, relative and absolute), schema-level extends over 1..3 real base "
        "files in two directories, and three generated component packages imported in diamond "
        "shape (once, twice, along two paths, with file=, by relative package name); six texts "
        "per schema. Non-trivial = accepted text that uses >= 1 section of a derived or imported "
        "type, or any text under a composed form with >= 2 features; distinct by hash of "
        "(composed documents, text).")
ASSUMPTIONS = [
    "no reference model: composed and expanded schema are both loaded by the real code and compared text by text",
    "schema-level extends keeps one key type across bases and extender (U7); derived types override the key type only over names that are fixed points of every key type (U18)",
    "the order of the attributes of section values below the top is compared (a section type keeps its children together, inherited ones first); the order at the top, which schema-level extends legitimately changes, and handler order are not",
]
MAIN = "file:///zcv/main.conf"
# names ending in a classmethod: each look-up of such a name yields a new bound-method object
SECTION_DTS = ("zcv.dt.wrap", "zcv.dt.wrap2", "zcv.dtalt.wrap", "zcv.dtalt.wrap", "zcv.dt.Methods.wrap")
VALUE_DTS = gen.KEY_DATATYPES + ["zcv.dt.evenint", "zcv.dt.evenint", "zcv.dtalt.evenint", "zcv.dtalt.evenint",
                                 "zcv.dt.Methods.evenint"]
KEYTYPES = ["basic-key", "identifier", "ipaddr-or-hostname", "zcv.dt.basickey", "zcv.dt.Methods.basickey"]

gen.NAME_POOL.setdefault("zcv.dt.basickey", gen.NAME_POOL["basic-key"])
gen.FREE_KEYS.setdefault("zcv.dt.basickey", gen.FREE_KEYS["basic-key"])
gen.BAD_KEYS.setdefault("zcv.dt.basickey", gen.BAD_KEYS["basic-key"])
gen.NAME_POOL.setdefault("zcv.dt.Methods.basickey", gen.NAME_POOL["basic-key"])
gen.FREE_KEYS.setdefault("zcv.dt.Methods.basickey", gen.FREE_KEYS["basic-key"])
gen.BAD_KEYS.setdefault("zcv.dt.Methods.basickey", gen.BAD_KEYS["basic-key"])


def boost_rekey(rng, ast):
    """Make the 'wildcard defaults re-keyed under a derived key type' clause occur: a base
    type with a lossy key type and keyed defaults written in mixed case, a type derived from it
    (chain 2 or 3) with a different key type, and a top-level slot for the derived type."""
    bkt = rng.choice(["basic-key", "ipaddr-or-hostname", "zcv.dt.basickey", "identifier"])
    dkt = rng.choice([k for k in ("identifier", "basic-key", "zcv.dt.basickey") if k != bkt])
    multi = rng.random() < 0.5
    keys = rng.sample(["Ky", "KZ", "kx", "Mixed_Case", "UP"], rng.choice([1, 2, 3]))
    if bkt != "identifier":
        keys = [k for k in keys if "_" not in k] or ["Ky"]
    defaults = []
    for k in keys:
        for _ in range(2 if multi and rng.random() < 0.5 else 1):
            defaults.append([k, rng.choice(["v", "w", "two words"])])
    wild = {"kind": "multikey" if multi else "key", "name": "+", "attribute": "wildb", "required": False,
            "handler": None, "datatype": "string", "defaults": defaults}
    ast["types"].append({"name": "tbb", "keytype": None if bkt == "basic-key" else bkt, "datatype": None,
                         "implements": None, "extends": None, "items": [wild]})
    mid = "tbb"
    if rng.random() < 0.55:
        # the middle of a chain of three; sometimes with a key type of its own, and the leaf going
        # back to the key type of the root (A - B - A)
        midkt = None
        if rng.random() < 0.5:
            midkt = dkt
            dkt = bkt if rng.random() < 0.6 else rng.choice(["identifier", "basic-key", "zcv.dt.basickey"])
        ast["types"].append({"name": "tbm", "keytype": midkt, "datatype": rng.choice([None, "zcv.dt.wrap"]),
                             "implements": None, "extends": "Tbb", "items": [
                                 {"kind": "key", "name": "alpha", "attribute": None, "required": False,
                                  "handler": None, "datatype": "string", "default": "d"}]})
        mid = "tbm"
    ast["types"].append({"name": "tdd", "keytype": dkt, "datatype": None, "implements": None,
                         "extends": mid, "items": []})
    ast["items"].append({"kind": "multisection", "name": "*", "attribute": "boosted", "required": False,
                         "handler": None, "type": "tdd"})
    ast["items"].append({"kind": "section", "name": "*", "attribute": "boostedbase", "required": False,
                         "handler": None, "type": "tbb"})


def outcome(schema, text):
    got = loadcheck.real_load(schema, text, url=MAIN)
    if got[0] == "ok":
        return ("ok", digest.digest(got[1]), digest.attr_orders(got[1]))
    if got[0] == "reject":
        return ("reject",)
    return ("internal", type(got[1]).__name__, got[2])


_LINK = {"n": 0}


def load_composed(c):
    ZConfig = loadcheck.zc()
    main = c.materialise()
    _LINK["n"] += 1
    if _LINK["n"] % 4 == 0:
        # the schema is stored elsewhere; the name it is loaded by is a symbolic link next to its
        # bases (relative references are relative to the name it was loaded by)
        import os
        store = os.path.join(c.root, "zcv-store")
        os.makedirs(store, exist_ok=True)
        os.rename(main, os.path.join(store, "stored-schema.xml"))
        os.symlink(os.path.join(store, "stored-schema.xml"), main)
    if _LINK["n"] % 3 == 1 and c.files:
        # an application that keeps one SchemaLoader: it has loaded the base files as schemas of
        # their own before (those that are schemas of their own), then loads the schema that
        # extends them through the same loader
        import os
        import ZConfig.loader
        loader = ZConfig.loader.SchemaLoader()
        for rel in sorted(c.files):
            try:
                loader.loadURL(os.path.join(c.root, *rel.split("/")))
            except ZConfig.ConfigurationError:
                pass
        c.features.add("loader:bases-loaded-before")
        return loader.loadURL(main)
    return ZConfig.loadSchema(main)


def compare_case(ast, comp, texts):
    """-> list of (text, [(sig, detail)], expanded outcome)"""
    ZConfig = loadcheck.zc()
    out = []
    exp_ast = compose.expand_extends(ast)
    try:
        expanded = loadcheck.load_schema_xml(gen.render_schema(exp_ast))
    except Exception as e:  # noqa
        return [("", [("expansion-rejected", repr(e))], None)]
    try:
        try:
            composed = load_composed(comp)
        except ZConfig.ConfigurationError as e:
            return [("", [("composed-schema-rejected:%s" % "+".join(sorted(f.split(":")[0] for f in comp.features)), str(e)[:300])], None)]
        except Exception as e:  # noqa
            return [("", [("composed-schema:internal:%s" % type(e).__name__, str(e)[:300])], None)]
        sm = refload.compile_schema(ast)
        for text in texts:
            ref = refload.ref_load(ast, {MAIN: text}, MAIN, sm=sm)
            if ref.kind == "unspec":
                # declaration-order dependent resolution (U1-U3): composition may reorder items
                out.append((text, [], ("unspec",)))
                continue
            a = outcome(expanded, text)
            b = outcome(composed, text)
            fl = []
            if "internal" in (a[0], b[0]):
                pass
            elif a[0] != b[0]:
                fl.append(("composition-changes-verdict:%s-expanded-%s-composed" % (a[0], b[0]),
                           "features %s" % sorted(comp.features)))
            elif a[0] == "ok":
                d = digest.first_diff(a[1], b[1])
                if d:
                    fl.append(("composition-changes-tree", "%s ; features %s" % (d, sorted(comp.features))))
                elif a[2] != b[2]:
                    # the children of a section type stay together wherever the type is defined:
                    # the base's first, then its own, in declaration order
                    d = next((x, y) for x, y in zip(a[2], b[2]) if x != y)
                    fl.append(("composition-changes-order-of-children", "%r expanded vs %r composed ; features %s"
                               % (d[0], d[1], sorted(comp.features))))
            out.append((text, fl, a))
    finally:
        comp.cleanup()
    return out


def rebuild(case):
    comp = compose.Composed()
    comp.main_xml = case["main_xml"]
    comp.files = dict(case["files"])
    comp.packages = {k: dict(v) for k, v in case["packages"].items()}
    comp.features = set(case.get("features", []))
    return comp


def shared_loader_probe(tag, variant):
    """One SchemaLoader shared by an application whose schemas extend a common base: while the
    base is being read on behalf of one schema, the import of a module it names as datatype loads
    -- through the same loader -- another schema that extends the same base.  Both must equal
    their written-out mergers.  -> [(sig, detail)]"""
    import importlib
    import os
    import shutil
    import sys
    import tempfile
    from urllib.request import pathname2url
    ZConfig = loadcheck.zc()
    import ZConfig.loader
    from zcv import dt as zdt
    mod = "zcvc11mod_%s" % tag
    base_items = '  <key name="lvl" datatype="%s.conv" default="3"/>\n  <sectiontype name="bt"><key name="k"/></sectiontype>\n' % mod
    if variant % 2:
        base_items += '  <multisection type="bt" name="*" attribute="bts"/>\n'
    docs = {
        "base.xml": "<schema>\n%s</schema>\n" % base_items,
        "app.xml": '<schema extends="base.xml">\n  <key name="app" default="a"/>\n</schema>\n',
        "settings.xml": '<schema extends="base.xml%s">\n  <key name="setting" default="s"/>\n</schema>\n' % (" more.xml" if variant >= 2 else ""),
        "more.xml": '<schema>\n  <key name="more" default="m"/>\n</schema>\n',
        "app-merged.xml": "<schema>\n%s  <key name=\"app\" default=\"a\"/>\n</schema>\n" % base_items,
        # (bases are merged last-named first)
        "settings-merged.xml": "<schema>\n%s%s  <key name=\"setting\" default=\"s\"/>\n</schema>\n"
                               % ('  <key name="more" default="m"/>\n' if variant >= 2 else "", base_items),
        mod + ".py": "import zcv.dt\n\n\ndef conv(value):\n    return int(value) * 2\n\n\nif zcv.dt.SCHEMA_HOOK is not None:\n    zcv.dt.SCHEMA_HOOK()\n",
    }
    out = []
    root = tempfile.mkdtemp(prefix="zcv-c11-")
    try:
        for fn, text in docs.items():
            with open(os.path.join(root, fn), "w", encoding="utf-8") as f:
                f.write(text)
        sys.path.insert(0, root)
        importlib.invalidate_caches()
        url = lambda fn: "file://" + pathname2url(os.path.join(root, fn))      # noqa: E731
        loader = ZConfig.loader.SchemaLoader()
        nested = []

        def hook():
            if not nested:
                nested.append(None)
                try:
                    nested[0] = ("ok", digest.schema_digest(loader.loadURL(url("settings.xml"))))
                except Exception as e:  # noqa
                    nested[0] = ("raises", "%s: %s" % (type(e).__name__, str(e)[:150]))
        zdt.SCHEMA_HOOK = hook
        try:
            try:
                outer = ("ok", digest.schema_digest(loader.loadURL(url("app.xml"))))
            except Exception as e:  # noqa
                outer = ("raises", "%s: %s" % (type(e).__name__, str(e)[:150]))
        finally:
            zdt.SCHEMA_HOOK = None
        want_outer = ("ok", digest.schema_digest(ZConfig.loadSchema(url("app-merged.xml"))))
        want_nested = ("ok", digest.schema_digest(ZConfig.loadSchema(url("settings-merged.xml"))))
        if not nested:
            out.append(("shared-loader-probe-did-not-nest", "the datatype module was not imported during the load"))
        else:
            for label, got, want in (("outer", outer, want_outer), ("nested", nested[0], want_nested)):
                if got[0] != "ok":
                    out.append(("schema-loaded-inside-another-load-of-the-same-loader:%s-refused" % label, got[1]))
                else:
                    d = digest.first_diff(_without_url(want[1]), _without_url(got[1]))
                    if d:
                        out.append(("schema-loaded-inside-another-load-of-the-same-loader:%s-differs" % label, d))
    finally:
        if root in sys.path:
            sys.path.remove(root)
        sys.modules.pop(mod, None)
        importlib.invalidate_caches()
        shutil.rmtree(root, ignore_errors=True)
    return out


def add_clash(rng, ast):
    """A derived type that declares a child whose name or attribute an inherited child already
    has: written out, the type has two children of one name / attribute -- a schema error -- so the
    'extends' form must be refused as well.  -> (ast with the clash, label) or None"""
    import copy
    bytype = {t["name"].lower(): t for t in ast["types"]}
    cands = []
    for t in ast["types"]:
        b = bytype.get(t["extends"].lower()) if t.get("extends") else None
        inherited = []
        while b is not None:
            inherited.extend(b["items"])
            b = bytype.get(b["extends"].lower()) if b.get("extends") else None
        if inherited:
            cands.append((t, inherited))
    if not cands:
        return None
    t, inherited = rng.choice(cands)
    it = rng.choice(inherited)
    attr = it.get("attribute") or refload.derive_attr(it["name"])
    if not attr:
        return None
    wild = it["name"] in ("*", "+")
    what = "%s-%s" % ("wildcard" if wild else "named", "section" if it["kind"] in ("section", "multisection") else "key")
    new = {"kind": rng.choice(["key", "multikey"]), "name": "zcvclash", "attribute": attr, "required": False,
           "handler": None, "datatype": "string"}
    how = "attribute"
    if not wild and rng.random() < 0.3:
        new["name"], new["attribute"], how = it["name"], "zcvclashattr", "name"
    out = copy.deepcopy(ast)
    for t2 in out["types"]:
        if t2["name"] == t["name"]:
            t2["items"] = t2["items"] + [new] if rng.random() < 0.5 else [new] + t2["items"]
    return out, "%s-of-inherited-%s" % (how, what)


def clash_check(ast):
    """-> [(sig, detail)]: the extends form of a schema whose expansion is refused must be refused"""
    ZConfig = loadcheck.zc()
    verdicts = []
    for a in (compose.expand_extends(ast), ast):
        try:
            loadcheck.load_schema_xml(gen.render_schema(a))
            verdicts.append("ok")
        except ZConfig.ConfigurationError:
            verdicts.append("reject")
        except Exception as e:  # noqa
            verdicts.append("internal:" + type(e).__name__)
    if verdicts[0] == "reject" and verdicts[1] != "reject":
        return [("composition-changes-schema-verdict:reject-expanded-%s-extends" % verdicts[1],
                 "the written-out schema is refused, the one using extends is not")], verdicts
    return [], verdicts


def _without_url(d):
    if isinstance(d, dict):
        return {k: _without_url(v) for k, v in d.items() if k != "url"}
    if isinstance(d, list):
        return [_without_url(x) for x in d]
    return d


def evaluate(case):
    if "shared_loader_probe" in case:
        return [failure(sig, case, d) for sig, d in shared_loader_probe(*case["shared_loader_probe"])]
    if "clash" in case:
        return [failure(sig, case, d) for sig, d in clash_check(case["clash"])[0]]
    comp = rebuild(case)
    res = compare_case(case["schema"], comp, [case["text"]])
    out = []
    for text, fl, _ in res:
        out.extend(failure(sig, case, d) for sig, d in fl)
    return out


NO_SHRINK = True


def shards(tier, seed):
    n = 4000 if tier == "thorough" else 400
    return [{"seed": seed, "lo": i * n, "hi": (i + 1) * n} for i in range(16)]


def run_shard(spec):
    res = Result()
    counters = collections.Counter()
    for i in range(spec["lo"], spec["hi"]):
        if i % 40 == 0:
            args = ["%d_%d" % (spec["seed"] % 1000, i % 3), (i // 40) % 4]
            res.evaluations += 1
            counters["shared-loader-probes"] += 1
            for sig, d in shared_loader_probe(*args):
                res.fail(sig, {"shared_loader_probe": args}, d)
        rng = loadcheck.case_rng(spec["seed"] + 1111, i)
        ast = gen.gen_schema(rng, section_dts=SECTION_DTS, value_dts=VALUE_DTS, keytypes=KEYTYPES,
                             derive_bias=rng.choice([0.3, 0.6, 0.8]), boost=0)
        if rng.random() < 0.25:
            boost_rekey(rng, ast)
            counters["schema:boosted-rekeyed-defaults"] += 1
        cl = add_clash(rng, ast)
        if cl is not None:
            res.evaluations += 1
            fl, verdicts = clash_check(cl[0])
            counters["clash:%s:expanded-%s" % (cl[1], verdicts[0])] += 1
            if verdicts[0] == "reject":
                res.nontrivial(key=["clash", gen.render_schema(cl[0])])
            for sig, d in fl:
                res.fail(sig, {"clash": cl[0]}, d)
        sm = refload.compile_schema(ast)
        texts = [gen.gen_text(rng, sm, f) for f in (0, 0, 0, 1, 1, 2)]
        # package names come round again within a process, each time with other contents
        pkgbase = "zcvp%d_%d_" % (spec["seed"] % 1000, i % 7 if i % 2 else i)
        comp = compose.compose(rng, ast, pkgbase)
        case0 = {"schema": ast, "main_xml": comp.main_xml, "files": dict(comp.files),
                 "packages": {k: dict(v) for k, v in comp.packages.items()}, "features": sorted(comp.features)}
        for f in comp.features:
            counters["feature:" + f] += 1
        counters["features:%d" % min(4, len(set(f.split(":")[0] for f in comp.features)))] += 1
        for text, fl, a in compare_case(ast, comp, texts):
            res.evaluations += 1
            if a is not None:
                counters["expanded:" + a[0]] += 1
            derived = any(t.get("extends") for t in ast["types"])
            if (a is not None and a[0] == "ok" and (derived or comp.packages) and "<" in text) or len(comp.features) >= 2:
                res.nontrivial(key=[comp.main_xml, sorted(comp.files.items()), text])
                if len(res.samples) < 1 and comp.packages and comp.files:
                    res.sample({"main_xml": comp.main_xml, "files": comp.files, "packages": comp.packages,
                                "text": text})
            for sig, d in fl:
                c = dict(case0)
                c["text"] = text
                res.fail(sig, c, d)
    res.counters.update(counters)
    return res


def check_coverage(tier, c):
    problems = []
    for k in ("feature:extends", "feature:components:diamond", "feature:prefix:relative-nested",
              "feature:prefix:relative-on-sectiontype-element", "feature:prefix:relative-package",
              "feature:prefix:empty", "clash:attribute-of-inherited-wildcard-section:expanded-reject",
              "clash:attribute-of-inherited-named-key:expanded-reject", "clash:name-of-inherited-named-key:expanded-reject",
              "expanded:ok", "expanded:reject"):
        if c.get(k, 0) < 20:
            problems.append("class %s has only %d cases" % (k, c.get(k, 0)))
    if not any(c.get("feature:schema-extends:%d" % n, 0) for n in (1, 2, 3)):
        problems.append("schema-level extends never used")
    return problems
