"""C19 -- every resource opened during a load is closed, however the load ends.

Fault enumeration.  Scenarios are generated load set-ups over real files and generated
packages: (config) a main resource with nested %include files and %import of a component;
(schema) a schema with an extends chain, <import src> and <import package> of components that
import each other.  A scenario is first run fault-free while the harness records every fault
point: each open of a resource, each read/readline call on each resource, each call of the
counting datatype and of the counting section datatype.  Then EVERY recorded point is
re-run with an exception injected exactly there (OSError for I/O points; ValueError and a
non-ValueError for datatype points).

Oracle after every run: each object returned by BaseLoader.createResource has been closed and
its file object is closed; each stream returned by urllib.request.urlopen was closed before
the corresponding createResource call; a following fault-free run on the same schema object /
SchemaLoader gives the recorded fault-free outcome.
"""

import collections
import io
import os
import shutil
import tempfile
import urllib.request

from zcv import compose, digest, gen, loadcheck
from zcv import dt as zdt
from zcv.core import Result, failure

ID = "C19"
LEVEL = "fault_enumeration"
RULE = ("generated scenarios: (config) random nested texts over a schema whose keys use a "
        "counting datatype and whose sections use a counting section datatype, split into 0..3 "
        "included real files (same/sub/parent directory) with an optional %import of a component "
        "package; (schema) a schema document with an extends chain of 0..2 base files, an "
        "<import src> and <import package> of up to two component packages importing each other. "
        "For each scenario ALL fault points are enumerated: open of resource j, reading the URL stream of resource j, the i-th "
        "read/readline on resource j, the k-th datatype call (ValueError and a non-ValueError), "
        "the k-th section-datatype call. Non-trivial = a fault point inside a nested resource "
        "(not the top resource); distinct by (scenario, point).")
ASSUMPTIONS = [
    "resources are observed by replacing BaseLoader.createResource (documented override point), urllib.request.urlopen and loader.openPackageResource from the harness; no repository hooks",
    "a fault is an exception raised by the wrapped file object / opener / datatype function; crashes of the interpreter or the OS are not modelled",
    "scenarios are sampled; within a scenario the enumeration of fault points is complete",
]

CONF_SCHEMA = """<schema>
  <abstracttype name="abs"/>
  <sectiontype name="s" datatype="zcv.dt.counting_section">
    <key name="k" datatype="zcv.dt.counting"/>
    <multikey name="m" datatype="zcv.dt.counting"/>
    <multisection type="s" name="*" attribute="subs"/>
  </sectiontype>
  <multisection type="s" name="*" attribute="secs"/>
  <multisection type="abs" name="*" attribute="abss"/>
  <multikey name="top" datatype="zcv.dt.counting"/>
</schema>
"""
PKG_COMPONENT = """<component>
  <sectiontype name="impl" implements="abs" datatype="zcv.dt.counting_section">
    <key name="k" datatype="zcv.dt.counting"/>
  </sectiontype>
</component>
"""


class Injected(OSError):
    pass


class State:
    def __init__(self):
        self.resources = []      # (url, TrackedResource)
        self.streams = []        # (url, TrackedStream)
        self.opens = 0
        self.plan = None         # ("open", j) | ("read", j, i)
        self.problems = []
        self.reads = collections.Counter()   # resource index -> number of read calls


STATE = State()


class TrackedFile:
    """Proxy for the file object inside a resource: counts read calls, injects a fault."""

    def __init__(self, f, index):
        self._f = f
        self._index = index

    def _tick(self):
        STATE.reads[self._index] += 1
        p = STATE.plan
        if p and p[0] == "read" and p[1] == self._index and p[2] == STATE.reads[self._index]:
            raise Injected("zcv: injected read failure on resource %d call %d" % (self._index, p[2]))

    def readline(self, *a):
        self._tick()
        return self._f.readline(*a)

    def read(self, *a):
        self._tick()
        return self._f.read(*a)

    def close(self):
        return self._f.close()

    @property
    def closed(self):
        return self._f.closed

    def __iter__(self):
        return self

    def __next__(self):
        # iteration is the file's own (a text file that is iterated answers tell() differently)
        self._tick()
        return next(self._f)

    def __getattr__(self, name):
        return getattr(self._f, name)


class TrackedStream:
    def __init__(self, f, url):
        self._f = f
        self.url = url
        self.closed_flag = False

    def read(self, *a):
        p = STATE.plan
        if p and p[0] == "sread" and p[1] == self.index:
            raise Injected("zcv: injected failure while reading the URL stream #%d" % self.index)
        return self._f.read(*a)

    def close(self):
        self.closed_flag = True
        return self._f.close()

    @property
    def headers(self):
        # every other answer comes from a server that says nothing about modification times
        # (as many do; 'data:' URLs never do)
        h = self._f.headers
        if getattr(self, "index", 0) % 2 == 0:
            import copy
            h = copy.copy(h)
            del h["Last-Modified"]
            del h["Last-modified"]
        return h

    def info(self):
        return self.headers

    def __getattr__(self, name):
        return getattr(self._f, name)


_PATCH = {}


def install():
    if _PATCH:
        return
    import ZConfig.loader as L
    _PATCH["urlopen"] = urllib.request.urlopen
    _PATCH["openPackageResource"] = L.openPackageResource
    _PATCH["createResource"] = L.BaseLoader.createResource
    Resource = L.Resource

    def tracked_urlopen(url, *a, **kw):
        STATE.opens += 1
        p = STATE.plan
        if p and p[0] == "open" and p[1] == STATE.opens:
            raise Injected("zcv: injected open failure (open #%d)" % STATE.opens)
        s = TrackedStream(_PATCH["urlopen"](url, *a, **kw), url)
        STATE.streams.append(s)
        s.index = len(STATE.streams)
        return s

    def tracked_pkg(package, path):
        STATE.opens += 1
        p = STATE.plan
        if p and p[0] == "open" and p[1] == STATE.opens:
            raise Injected("zcv: injected open failure (package open #%d)" % STATE.opens)
        return _PATCH["openPackageResource"](package, path)

    def tracked_create(self, file, url):
        for s in STATE.streams:
            if not s.closed_flag:
                STATE.problems.append("URL stream of %s still open when the resource for %s is created"
                                      % (_short(s.url), _short(url)))
        index = len(STATE.resources)
        r = Resource(TrackedFile(file, index), url)
        STATE.resources.append((url, r, file))
        return r

    urllib.request.urlopen = tracked_urlopen
    L.openPackageResource = tracked_pkg
    L.BaseLoader.createResource = tracked_create


DATA_INCLUDES = ["%include data:text/plain;charset=x-no-such-charset,top%20zcv-data%0A",
                 "%include data:image/png,top%20zcv-png%0A", "%include data:,top%20zcv-bare%0A",
                 "%include data:text/plain;charset=utf-16,top%20zcv-u16%0A", "%include data:application/octet-stream;base64,dG9wIHpjdi1iNjQK"]
BAD_LINES = ["<x y z>", "%nosuchdirective x", "top ${unclosed", "<nosuchtype>"]


def _text_faults(R, sc, res):
    import os
    out = []
    root = urllib.request.url2pathname(R.main[len("file://"):])
    files = []
    for d, _dirs, fns in os.walk(R.root):
        for fn in sorted(fns):
            if fn.endswith(".conf"):
                files.append(os.path.join(d, fn))
    files.sort()
    n = 0
    for path in files:
        with open(path, encoding="utf-8") as f:
            original = f.read()
        lines = original.split("\n")
        if len(original) > 100000:
            continue
        positions = list(range(len(lines)))
        if len(positions) > 5:
            positions = positions[:2] + positions[len(positions) // 2:len(positions) // 2 + 1] + positions[-2:]
        try:
            for i in positions:
                bad = BAD_LINES[(i + n) % len(BAD_LINES)]
                n += 1
                with open(path, "w", encoding="utf-8", newline="\n") as f:
                    f.write("\n".join(lines[:i] + [bad] + lines[i:]))
                R.fresh_loader()
                o = R.run()
                where = "%s line %d (%r)" % (os.path.basename(path), i + 1, bad)
                for l in STATE.at_raise:
                    out.append(("leak:after-text-fault:while-the-exception-is-held", "%s ; %s ; outcome %r" % (l, where, o[:2])))
                for l in leaks():
                    out.append(("leak:after-text-fault", "%s ; %s ; outcome %r" % (l, where, o[:2])))
                if o[0] == "other":
                    out.append(("unexpected-exception:text-fault:%s" % o[1], "%s: %s" % (where, o[2])))
                if res is not None:
                    res.evaluations += 1
                    res.count("points:text")
                    if o[0] == "reject":
                        res.count("points:text:refused")
                        res.nontrivial()
        finally:
            with open(path, "w", encoding="utf-8", newline="\n") as f:
                f.write(original)
    return out


def _short(url):
    return str(url).rsplit("/", 1)[-1]


def reset(plan=None):
    STATE.resources = []
    STATE.streams = []
    STATE.opens = 0
    STATE.plan = plan
    STATE.problems = []
    STATE.reads = collections.Counter()
    STATE.at_raise = []


def leaks():
    out = list(STATE.problems)
    for i, (url, r, f) in enumerate(STATE.resources):
        if not r.closed or r.file is not None:
            out.append("resource #%d (%s) not closed" % (i, _short(url)))
        elif not f.closed:
            out.append("file object of resource #%d (%s) not closed" % (i, _short(url)))
    for s in STATE.streams:
        if not s.closed_flag:
            out.append("URL stream of %s never closed" % _short(s.url))
    return out


# ------------------------------------------------------------------ scenarios


def gen_conf_text(rng, depth=0):
    lines = []
    for _ in range(rng.randint(1, 4)):
        r = rng.random()
        if r < 0.35 and depth < 2:
            nm = rng.choice(["", " n%d" % rng.randint(1, 9)])
            lines.append("<s%s>" % nm)
            lines.extend("  " + l for l in gen_conf_text(rng, depth + 1))
            lines.append("</s>")
        elif r < 0.6:
            lines.append("m v%d" % rng.randint(1, 99) if depth else "top v%d" % rng.randint(1, 99))
        elif r < 0.75 and depth:
            if not any(l.startswith("k ") for l in lines):
                lines.append("k v%d" % rng.randint(1, 99))
        else:
            lines.append("# comment")
    return lines


def gen_scenario(rng, idx):
    kind = rng.choice(["config", "config", "schema"])
    pkg = "zcvs%d_" % idx
    if kind == "config":
        lines = gen_conf_text(rng)
        use_import = rng.random() < 0.5
        if use_import:
            lines.insert(rng.randrange(len(lines) + 1), "<impl>\n  k 1\n</impl>".replace("\n", "\n"))
            lines = "\n".join(lines).split("\n")
            lines.insert(0, "%%import %sa" % pkg)
        if rng.random() < 0.5:
            # a definition (and perhaps a use): nothing of it may outlive the load
            k = rng.randrange(len(lines) + 1)
            lines.insert(k, "%define zcvdef dv")
            if rng.random() < 0.5:
                lines.insert(rng.randrange(k + 1, len(lines) + 1), "top $zcvdef")
        if rng.random() < 0.2:
            # a resource that is not a file: its answer announces a media type and a character set
            lines.insert(rng.randrange(len(lines) + 1), rng.choice(DATA_INCLUDES))
        text = "".join(l + "\n" for l in lines)
        main = "file:///zcv/a/b/c/main.conf"
        resources, cuts = gen.cut_includes(rng, text, main, ncuts=rng.choice([0, 1, 2, 3]))
        r = rng.random()
        if r < 0.2:
            # an include cycle: some resource includes itself or a resource that (transitively)
            # includes it -- the load is refused, and everything opened on the way must be closed
            import posixpath
            src = rng.choice(sorted(resources))
            ancestors = {src}
            grew = True
            while grew:
                grew = False
                for a, b, _i, _j in cuts:
                    if b in ancestors and a not in ancestors:
                        ancestors.add(a)
                        grew = True
            dst = rng.choice(sorted(ancestors))
            ref = posixpath.relpath(dst[len("file://"):], posixpath.dirname(src[len("file://"):]))
            ls = resources[src].split("\n")
            ls.insert(rng.randrange(len(ls)), "%%include %s" % ref)
            resources[src] = "\n".join(ls)
        elif r < 0.3:
            # an include of a resource that does not exist
            src = rng.choice(sorted(resources))
            ls = resources[src].split("\n")
            ls.insert(rng.randrange(len(ls)), "%include nosuchfile.conf")
            resources[src] = "\n".join(ls)
        if rng.random() < 0.08:
            # a size class: one resource of more than 128 KiB (comment lines)
            big = rng.choice(sorted(resources))
            resources[big] = "# " + "padding " * 18000 + "\n" + resources[big]      # one long line: one fault point
        return {"kind": "config", "resources": resources, "main": main,
                "packages": {pkg + "a": {"component.xml": PKG_COMPONENT}} if use_import else {},
                "entry": rng.choice(["url", "file"])}
    # schema scenario
    nb = rng.choice([0, 1, 2, 3])
    files = {}
    ext = ""
    if nb == 3:
        # several bases in one list
        ext = ' extends="../bases/b1.xml ../bases/b3.xml b4.xml"'
        files["bases/b1.xml"] = '<schema>\n  <key name="b1" default="1"/>\n</schema>\n'
        files["bases/b3.xml"] = '<schema>\n  <key name="b3" default="3"/>\n</schema>\n'
        files["main/b4.xml"] = '<schema>\n  <key name="b4" default="4"/>\n</schema>\n'
    elif nb >= 1:
        ext = ' extends="../bases/b1.xml"'
        b1ext = ""
        if nb == 2:
            b1ext = ' extends="b2.xml"'
            files["bases/b2.xml"] = '<schema>\n  <key name="b2" default="2"/>\n</schema>\n'
        files["bases/b1.xml"] = '<schema%s>\n  <key name="b1" default="1"/>\n</schema>\n' % b1ext
    body = []
    packages = {}
    if rng.random() < 0.6:
        files["main/types.xml"] = ('<schema>\n  <sectiontype name="ts">\n    <key name="k" datatype="integer"/>\n'
                                   '  </sectiontype>\n</schema>\n')
        body.append('  <import src="types.xml"/>')
        body.append('  <multisection type="ts" name="*" attribute="tss"/>')
    if rng.random() < 0.7:
        two = rng.random() < 0.5
        packages[pkg + "a"] = {"component.xml": '<component>\n%s  <sectiontype name="pa">\n    <key name="k"/>\n  </sectiontype>\n</component>\n'
                               % ('  <import package="%sb"/>\n' % pkg if two else "")}
        if two:
            packages[pkg + "b"] = {"component.xml": '<component>\n  <abstracttype name="pabs"/>\n  <sectiontype name="pb" implements="pabs"/>\n</component>\n'}
        body.append('  <import package="%sa"/>' % pkg)
        if two and rng.random() < 0.5:
            body.append('  <import package="%sb"/>' % pkg)          # reached along two paths
        if rng.random() < 0.4:
            body.append('  <import package="%sa"/>' % pkg)          # the same import twice
        body.append('  <section type="pa" name="*" attribute="pa"/>')
    ns = []
    if rng.random() < 0.2:
        # a component in a package directory without __init__.py (a namespace package): whatever
        # the loader makes of it, nothing stays open
        packages[pkg + "ns"] = {"component.xml": '<component>\n  <sectiontype name="pn"/>\n</component>\n'}
        ns = [pkg + "ns"]
        body.insert(rng.randrange(len(body) + 1), '  <import package="%sns"/>' % pkg)
    body.append('  <key name="own" default="x"/>')
    main_xml = "<schema%s>\n%s\n</schema>\n" % (ext, "\n".join(body))
    return {"kind": "schema", "main_xml": main_xml, "files": files, "packages": packages,
            "namespace_packages": ns, "entry": rng.choice(["url", "file"])}


class Runner:
    """Materialises one scenario and runs it (fault-free or with a plan)."""

    def __init__(self, sc):
        self.sc = sc
        self.comp = compose.Composed()
        self.comp.packages = sc["packages"]
        self.comp.namespace_packages = set(sc.get("namespace_packages") or [])
        self.root = None

    def __enter__(self):
        ZConfig = loadcheck.zc()
        sc = self.sc
        if sc["kind"] == "config":
            self.comp.main_xml = CONF_SCHEMA
            self.comp.materialise()
            self.schema = ZConfig.loadSchemaFile(io.StringIO(CONF_SCHEMA))
            res, main, root = loadcheck.materialise(sc["resources"], sc["main"])
            self.root = root
            self.main = main
        else:
            self.comp.main_xml = sc["main_xml"]
            self.comp.files = sc["files"]
            self.main = self.comp.materialise()
            import ZConfig.loader
            self.loader = ZConfig.loader.SchemaLoader()
        install()
        return self

    def __exit__(self, *a):
        self.comp.cleanup()
        if self.root:
            shutil.rmtree(self.root, ignore_errors=True)

    def fresh_loader(self):
        import ZConfig.loader
        if self.sc["kind"] == "schema":
            self.loader = ZConfig.loader.SchemaLoader()
        else:
            # one ConfigLoader object serves the faulted load and the fault-free load after it
            self.cloader = ZConfig.loader.ConfigLoader(self.schema)

    def rewrite_and_reload(self):
        """The application corrects the top file on disk (here: replaces it by one known line) and
        loads it again through the SAME loader object; then the original text is put back.
        -> None when the loader reads the new content."""
        import os
        ZConfig = loadcheck.zc()
        loader = getattr(self, "cloader", None)
        if loader is None:
            return None
        path = urllib.request.url2pathname(self.main[len("file://"):])
        with open(path, encoding="utf-8") as f:
            original = f.read()
        # ... and one of the files it includes, when there is one
        inc = None
        for line in original.split("\n"):
            if line.strip().startswith("%include ") and "$" not in line:
                cand = os.path.join(os.path.dirname(path), line.strip()[len("%include "):].strip())
                if os.path.isfile(cand) and not os.path.samefile(cand, path):
                    inc = (line.strip(), cand)
                    break
        inc_original = None
        if inc:
            with open(inc[1], encoding="utf-8") as f:
                inc_original = f.read()
        try:
            with open(path, "w", encoding="utf-8", newline="\n") as f:
                f.write((inc[0] + "\n" if inc else "") + "top zcv-rewritten\n")
            if inc:
                with open(inc[1], "w", encoding="utf-8", newline="\n") as f:
                    f.write("top zcv-included\n")
            try:
                cfg, _h = loader.loadURL(self.main)
                got = list(cfg.top)
            except Exception as e:  # noqa
                return "reload of the rewritten file raised %r" % (e,)
            if got != (["zcv-included"] if inc else []) + ["zcv-rewritten"]:
                return "rewritten file%s gave top=%r" % (" and rewritten include" if inc else "", got)
            return None
        finally:
            with open(path, "w", encoding="utf-8", newline="\n") as f:
                f.write(original)
            if inc:
                with open(inc[1], "w", encoding="utf-8", newline="\n") as f:
                    f.write(inc_original)

    def probe(self):
        """After a (failed) load: a text that only USES the name the scenario defines, through the
        same loader object.  -> None when it is refused (nothing was left behind)."""
        ZConfig = loadcheck.zc()
        loader = getattr(self, "cloader", None)
        if loader is None:
            return None
        try:
            cfg, _h = loader.loadFile(io.StringIO("top $zcvdef\n"), "file:///zcv/probe.conf")
        except ZConfig.ConfigurationError:
            return None
        except Exception as e:  # noqa
            return "raised %r" % (e,)
        return "accepted: top=%r" % (cfg.top,)

    def probe_import(self):
        """After a (failed) load that said '%import': a text that only USES the component's section
        type, through the same loader object and through a new one for the same schema object.
        -> None when both refuse it (the vocabulary of the earlier load is gone)."""
        ZConfig = loadcheck.zc()
        import ZConfig.loader
        for label, loader in (("same loader", getattr(self, "cloader", None)),
                              ("new loader, same schema", ZConfig.loader.ConfigLoader(self.schema))):
            if loader is None:
                continue
            try:
                loader.loadFile(io.StringIO("<impl>\n  k 1\n</impl>\n"), "file:///zcv/probe-import.conf")
            except ZConfig.ConfigurationError:
                continue
            except Exception as e:  # noqa
                return "%s: raised %r" % (label, e)
            return "%s: accepted" % label
        return None

    def run(self, plan=None, conv=None):
        """-> outcome tuple; resets the tracking state first."""
        ZConfig = loadcheck.zc()
        reset(plan)
        zdt.reset_counter(*(conv or (None, None)))
        sc = self.sc
        try:
            if sc["kind"] == "config":
                import ZConfig.loader
                loader = getattr(self, "cloader", None) or ZConfig.loader.ConfigLoader(self.schema)
                if sc["entry"] == "url":
                    cfg, _h = loader.loadURL(self.main)
                else:
                    path = urllib.request.url2pathname(self.main[len("file://"):])
                    cfg, _h = loader.loadFile(open(path, encoding="utf-8"))
                return ("ok", digest.digest(cfg))
            if sc["entry"] == "url":
                s = self.loader.loadURL(self.main)
            else:
                s = self.loader.loadFile(open(self.main, encoding="utf-8"))
            return ("ok", digest.schema_digest(s))
        except ZConfig.ConfigurationError as e:
            # "closed by the time the call ... raises": looked at while the exception is still held
            STATE.at_raise = leaks()
            return ("reject", type(e).__name__)
        except Injected:
            STATE.at_raise = leaks()
            return ("injected-escaped",)
        except zdt.Boom:
            STATE.at_raise = leaks()
            return ("boom",)
        except Exception as e:  # noqa
            STATE.at_raise = leaks()
            return ("other", type(e).__name__, str(e)[:200])
        finally:
            STATE.plan = None
            zdt.reset_counter()


def run_scenario(sc, res=None, only=None):
    """Enumerate all fault points of one scenario.  -> list of (sig, detail, point)"""
    out = []
    with Runner(sc) as R:
        base = R.run()
        lk = leaks()
        for l in lk:
            out.append(("leak:fault-free", l, None))
        for l in STATE.at_raise:
            out.append(("leak:fault-free:while-the-exception-is-held", l, None))
        reads = dict(STATE.reads)
        nres = len(STATE.resources)
        nopens = STATE.opens
        nstreams = len(STATE.streams)
        nconv = zdt.COUNTER["n"] if False else None
        # count datatype calls in a separate fault-free run (the counter is reset in run())
        zdt.reset_counter()
        reset()
        R.fresh_loader()
        calls = _count_calls(R)
        points = []
        for j in range(1, nopens + 1):
            points.append(("open", j))
        for j in range(1, nstreams + 1):
            points.append(("sread", j))
        for j in range(nres):
            for i in range(1, reads.get(j, 0) + 1):
                points.append(("read", j, i))
        for k in range(1, len(calls) + 1):
            points.append(("conv", k, "ValueError"))
            points.append(("conv", k, "Boom"))
        if res is not None:
            res.count("scenario:%s" % sc["kind"])
            res.count("resources:%d" % min(nres, 5))
            res.count("points:open", nopens)
            res.count("points:read", sum(reads.values()))
            res.count("points:conv", 2 * len(calls))
        for p in points:
            if only is not None and list(p) != list(only):
                continue
            R.fresh_loader()      # a schema loader that has not cached anything yet
            if p[0] == "conv":
                o = R.run(conv=(p[1], ValueError if p[2] == "ValueError" else zdt.Boom))
            else:
                o = R.run(plan=p)
            label = "%s" % (p[0],)
            for l in STATE.at_raise:
                out.append(("leak:after-%s-fault:while-the-exception-is-held" % label, "%s ; point %r ; outcome %r" % (l, p, o[:2]), p))
            if sc["kind"] == "config" and "zcvdef" in "".join(sc["resources"].values()):
                pr = R.probe()
                if pr is not None:
                    out.append(("definition-left-behind-after-%s-fault" % label, "point %r ; probe 'top $zcvdef' -> %s" % (p, pr), p))
            if sc["kind"] == "config" and sc.get("packages"):
                pr = R.probe_import()
                if pr is not None:
                    out.append(("imported-type-left-behind-after-%s-fault" % label, "point %r ; probe '<impl>' -> %s" % (p, pr), p))
            for l in leaks():
                out.append(("leak:after-%s-fault" % label, "%s ; point %r ; outcome %r" % (l, p, o[:2]), p))
            if o[0] == "ok" and p[0] != "conv":
                # the injected fault was swallowed
                out.append(("fault-swallowed:%s" % label, "point %r" % (p,), p))
            if o[0] == "other":
                out.append(("unexpected-exception:%s:%s" % (label, o[1]), "point %r: %s" % (p, o[2]), p))
            if sc["kind"] == "config" and p[0] != "conv":
                changed = R.rewrite_and_reload()
                if changed is not None:
                    out.append(("later-load-reads-stale-content-after-%s-fault" % label, "point %r ; %s" % (p, changed), p))
            again = R.run()
            if again != base:
                out.append(("later-load-differs-after-%s-fault" % label,
                            "point %r ; fault-free outcome %r, after the failed load %r" % (p, base[:1], again[:2] if again[0] != "ok" else "ok/different"), p))
            for l in leaks():
                out.append(("leak:rerun-after-%s-fault" % label, l, p))
            if res is not None:
                res.evaluations += 1
                if p[0] in ("read",) and p[1] > 0:
                    res.nontrivial()
                elif p[0] in ("open", "sread") and p[1] > 1:
                    res.nontrivial()
                elif p[0] == "conv":
                    res.nontrivial()
        # failures that are the text's own: a malformed line in front of line i of resource file j
        # (whichever resource and whichever line the failure occurs in)
        if sc["kind"] == "config" and only is None:
            for sig, d in _text_faults(R, sc, res):
                out.append((sig, d, None))
        # the same with a second load through the SAME loader object run to completion from inside
        # the first conversion (texts without %import only: a loader serves one %import at a time)
        if sc["kind"] == "config" and not sc.get("packages") and calls and only is None \
                and "%import" not in "".join(sc["resources"].values()):
            state = {"done": False}

            def hook(_value):
                if state["done"]:
                    return
                state["done"] = True
                loader = getattr(R, "cloader", None)
                if loader is not None:
                    try:
                        loader.loadFile(io.StringIO("top zcv-nested\n<s n>\n k 1\n</s>\n"), "file:///zcv/nested/inner.conf")
                    except Exception:  # noqa
                        pass
            for p in [None] + [q for q in points if q[0] != "conv"]:
                R.fresh_loader()
                state["done"] = False
                zdt.HOOK = hook
                try:
                    o = R.run(plan=p)
                finally:
                    zdt.HOOK = None
                if res is not None:
                    res.evaluations += 1
                    res.count("runs-with-a-nested-load")
                if p is None and state["done"] and o != base:
                    out.append(("nested-load-changes-the-outer-load", "fault-free outcome %r, with a nested load %r" % (base[:1], o[:2] if o[0] != "ok" else "ok/different"), None))
                for l in leaks():
                    out.append(("leak:with-a-nested-load-through-the-same-loader", "%s ; point %r ; outcome %r" % (l, p, o[:2]), None))
                if o[0] == "other":
                    out.append(("unexpected-exception:with-a-nested-load:%s" % o[1], "point %r: %s" % (p, o[2]), None))
    return out


def _count_calls(R):
    zdt.reset_counter()
    reset()
    # run() resets the counter at its start and end; capture in between by a throw-away run
    calls = []
    orig = zdt.reset_counter

    def keep(*a, **kw):
        calls[:] = list(zdt.COUNTER["calls"]) or calls
        return orig(*a, **kw)
    zdt.reset_counter = keep
    try:
        R.run()
    finally:
        zdt.reset_counter = orig
    return calls


TOOL_FILES = {
    "component.xml": '<component><sectiontype name="t"><key name="k" default="1"/></sectiontype></component>',
    "full.xml": '<schema><sectiontype name="t"><key name="k"/></sectiontype><section type="t" name="*" attribute="s"/></schema>',
    "extending.xml": None,      # filled in: a schema that extends full.xml of the same package
    "broken.xml": '<schema><key name="k"',
    "other.xml": '<config/>',
    "truncated.xml": '<schema>\n<key name="k"/>\n',
}


def tool_probe(pkg):
    """The loader behind zconfig_schema2html --package PKG FILE and the Sphinx directive, pointed
    at a component, at complete schemas and at documents that are neither: everything it opened is
    closed when it returns or raises.  -> [(sig, detail)]"""
    import importlib
    import shutil
    import sys
    import tempfile
    import ZConfig._schema_utils
    out = []
    base = tempfile.mkdtemp(prefix="zcv-c19-")
    try:
        os.mkdir(os.path.join(base, pkg))
        open(os.path.join(base, pkg, "__init__.py"), "w").close()
        files = dict(TOOL_FILES)
        files["extending.xml"] = '<schema extends="package:%s:full.xml"><key name="more"/></schema>' % pkg
        for fn, text in files.items():
            with open(os.path.join(base, pkg, fn), "w", encoding="utf-8") as f:
                f.write(text)
        sys.path.insert(0, base)
        importlib.invalidate_caches()
        install()
        for fn in sorted(files) + ["missing.xml"]:
            reset()
            try:
                ZConfig._schema_utils.load_schema(fn, pkg)
                how = "returned"
            except Exception as e:  # noqa
                how = "raised %s" % type(e).__name__
            for l in leaks():
                out.append(("leak:schema-tool:%s" % fn.split(".")[0], "%s ; load_schema(%r, package) %s" % (l, fn, how)))
    finally:
        if base in sys.path:
            sys.path.remove(base)
        for m in list(sys.modules):
            if m.split(".")[0] == pkg:
                del sys.modules[m]
        shutil.rmtree(base, ignore_errors=True)
    return out


def evaluate(case):
    if "tool" in case:
        return [failure(sig, case, d) for sig, d in tool_probe(case["tool"])]
    sc = case["scenario"]
    try:
        fl = run_scenario(sc, only=case.get("point"))
    except (KeyError, AssertionError, OSError, AttributeError, TypeError, ValueError):
        return []
    return [failure(sig, case, d) for sig, d, _ in fl]


NO_SHRINK = True


def shards(tier, seed):
    n = 1500 if tier == "thorough" else 150
    return [{"seed": seed, "lo": i * n, "hi": (i + 1) * n} for i in range(16)]


def run_shard(spec):
    res = Result()
    for i in range(spec["lo"], spec["hi"]):
        if i % 50 == 0:
            pkg = "zcvtool%d_%d" % (spec["seed"] % 1000, i)
            res.evaluations += len(TOOL_FILES) + 1
            res.count("schema-tool-probes")
            for sig, d in tool_probe(pkg):
                res.fail(sig, {"tool": pkg}, d)
        rng = loadcheck.case_rng(spec["seed"] + 1919, i)
        sc = gen_scenario(rng, spec["seed"] * 100000 + i)
        fl = run_scenario(sc, res)
        if len(res.samples) < 1:
            res.sample({"scenario": sc})
        for sig, d, p in fl:
            res.fail(sig, {"scenario": sc, "point": list(p) if p else None}, d)
    res.exhaustive_parts.append("every open / read / datatype-call fault point of each generated scenario")
    return res


def check_coverage(tier, c):
    problems = []
    for k in ("points:open", "points:read", "points:conv", "scenario:config", "scenario:schema"):
        if c.get(k, 0) < 10:
            problems.append("class %s has only %d cases" % (k, c.get(k, 0)))
    return problems
