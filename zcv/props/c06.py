"""C06 -- %include behaves as textual inclusion of a self-contained fragment.

Metamorphic, model-free: for a text T (valid or invalid, from the C01 generator, with
%define/$ uses) 1..3 balanced line ranges are cut out into separate real files (same
directory, sub-directory, parent directory; nested cuts allowed) and replaced by %include;
loading the split version by path must give the same outcome (equal value tree, or rejection)
as loading T itself.  Unbalanced cuts of accepted texts must be rejected.
"""

import collections
import shutil

from zcv import digest, gen, loadcheck, model, refload
from zcv.core import Result, failure

ID = "C06"
LEVEL = "exploration"
RULE = ("texts of the C01 campaign (fault levels 0..3) enriched with %define lines and $ "
        "references; per text two independent splittings into 1..3 included real files placed "
        "in the same, a sub- or the parent directory (nested cuts allowed), compared with the "
        "unsplit text; plus one unbalanced cut per accepted text. Non-trivial = a cut inside a "
        "section, or a fragment that contains a %define used outside it / a use of an outer "
        "definition, or a nested cut placed in a different directory; distinct by hash of "
        "(schema XML, resources).")
ASSUMPTIONS = [
    "no reference model: the oracle is the relation between two loads of the real code",
    "value trees are compared by digest (attribute sets, values, order of multi-valued items)",
    "which ConfigurationError is raised is not compared, only the fact of rejection",
]
MAIN = "file:///zcv/a/b/c/main.conf"


def outcome(got):
    if got[0] == "ok":
        return ("ok", digest.digest(got[1]))
    if got[0] == "reject":
        return ("reject",)
    return ("internal", type(got[1]).__name__, got[2])


def add_defines(rng, text):
    """Sprinkle definitions and references so that they flow across future cut points."""
    lines = text.split("\n")
    if lines and lines[-1] == "":
        lines.pop()
    n = rng.choice([0, 1, 2, 2, 3])
    names = ["da", "Db", "dc"]
    for k in range(n):
        nm = rng.choice(names)
        val = rng.choice(["v%d" % k, "", "$da", "x y", "$$z"])
        i = rng.randrange(len(lines) + 1)
        lines.insert(i, "%%define %s %s" % (nm, val))
        # a use somewhere after (mostly) or before (rarely: an error both ways)
        cands = [j for j, l in enumerate(lines) if l.strip() and l.strip()[0] not in "#%<" and len(l.split()) >= 2]
        if cands:
            j = rng.choice(cands)
            parts = lines[j].split(None, 1)
            lead = lines[j][:len(lines[j]) - len(lines[j].lstrip())]
            lines[j] = "%s%s %s" % (lead, parts[0], rng.choice(["$%s" % nm.upper(), "${%s}" % nm, "a$%s" % nm]))
    if len(lines) > 1 and rng.random() < 0.12:
        # U+FEFF in front of a line that is not the first one: part of the key (or what turns a
        # comment into a key line) wherever the line ends up
        j = rng.randrange(1, len(lines))
        lines[j] = "\ufeff" + lines[j].lstrip()
    return "".join(l + "\n" for l in lines)


def unbalanced_cut(rng, text, main_url):
    lines = text.split("\n")
    if lines and lines[-1] == "":
        lines.pop()
    dep = gen.line_depths(lines)
    n = len(lines)
    cands = []
    for i in range(n):
        for j in range(i + 1, n + 1):
            seg = dep[i:j + 1]
            if dep[j] != dep[i] or min(seg) < dep[i]:
                cands.append((i, j))
    if not cands:
        return None
    i, j = rng.choice(cands)
    res = {main_url: "".join(l + "\n" for l in lines[:i] + ["%include incu.conf"] + lines[j:]),
           model.url_join(main_url, "incu.conf"): "".join(l + "\n" for l in lines[i:j])}
    return res


def dangling_cut(rng, text, main_url):
    """A section that is never closed, opened inside a fragment: the closing line of one section is
    dropped from the text, and a run of lines that starts at (or before) its opening line and ends
    inside it goes to a fragment.  -> (the text without the closing line, resources) or None"""
    lines = text.split("\n")
    if lines and lines[-1] == "":
        lines.pop()
    dep = gen.line_depths(lines)
    opens = [i for i, l in enumerate(lines) if l.strip().startswith("<") and not l.strip().startswith("</")
             and not l.strip().endswith("/>") and i + 1 < len(dep) and dep[i + 1] == dep[i] + 1]
    rng.shuffle(opens)
    for o in opens:
        c = next((j for j in range(o + 1, len(lines)) if dep[j + 1] == dep[o] and lines[j].strip().startswith("</")), None)
        if c is None:
            continue
        # fragment = lines[s:k] with s <= o < k <= c, starting at the depth of the opening line
        starts = [s for s in range(o, -1, -1) if dep[s] == dep[o] and min(dep[s:o + 1]) >= dep[o]]
        s_ = rng.choice(starts[:3])
        k = rng.randint(o + 1, c)
        if min(dep[o + 1:k + 1]) <= dep[o]:
            continue
        frag = lines[s_:k]
        if any(l.strip().startswith("%include") for l in frag):
            continue
        name = rng.choice(["dangling.conf", "sub/dangling.conf"])
        rest = lines[k:c] + lines[c + 1:]
        whole = lines[:c] + lines[c + 1:]
        resources = {main_url: "".join(l + "\n" for l in lines[:s_] + ["%%include %s" % name] + rest),
                     model.url_join(main_url, name): "".join(l + "\n" for l in frag)}
        return "".join(l + "\n" for l in whole), resources
    return None


def double_include(rng, text, main_url):
    """The same fragment included twice: a balanced range is duplicated in the text, and both
    copies are replaced by %include of ONE resource.  -> (text with the range twice, resources)"""
    lines = text.split("\n")
    if lines and lines[-1] == "":
        lines.pop()
    ranges = gen.balanced_ranges(lines)
    if not ranges:
        return None
    i, j = rng.choice(ranges)
    frag = lines[i:j]
    if any(l.strip().startswith("%") for l in frag):
        return None
    between = rng.choice([[], ["# between"], lines[j:j + 1] if j < len(lines) and gen.line_depths(lines)[j] == gen.line_depths(lines)[j + 1] else []])
    twice = lines[:j] + between + frag + lines[j + len(between):] if between == lines[j:j + 1] and between else lines[:j] + between + frag + lines[j:]
    name = rng.choice(["twice.conf", "sub/twice.conf"])
    inc = "%%include %s" % name
    if between == lines[j:j + 1] and between:
        split = lines[:i] + [inc] + between + [inc] + lines[j + 1:]
    else:
        split = lines[:i] + [inc] + between + [inc] + lines[j:]
    resources = {main_url: "".join(l + "\n" for l in split),
                 model.url_join(main_url, name): "".join(l + "\n" for l in frag)}
    return "".join(l + "\n" for l in twice), resources


_N = {"n": 0}


def compare(schema, text, resources, main=MAIN, expect_reject=False):
    """-> (inline outcome, split outcome, [(sig, detail)])"""
    inline = outcome(loadcheck.real_load(schema, text, url=main))
    _N["n"] += 1
    real_res, real_main, root = loadcheck.materialise(resources, main, reuse=_N["n"] % 2 == 0, odd_dir=_N["n"] % 3 == 0)
    if _N["n"] % 5 == 0:
        # the name the application uses is a symbolic link; the file is stored in another directory
        import os
        from urllib.request import url2pathname
        link = url2pathname(real_main[len("file://"):])
        store = os.path.join(root, "zcv-store")
        os.makedirs(store, exist_ok=True)
        os.rename(link, os.path.join(store, "stored-main.conf"))
        os.symlink(os.path.join(store, "stored-main.conf"), link)
        real_main = link            # and it is named by path, not by URL
    _decoys(resources, main, real_res, real_main)
    try:
        split = outcome(loadcheck.real_load_url(schema, real_main))
    finally:
        shutil.rmtree(root, ignore_errors=True)
    out = []
    if split[0] == "internal":
        out.append(("internal:%s:%s" % (split[1], split[2]), "split load raised %s" % split[1]))
    elif expect_reject == "always":
        # the fragment opens a section and ends inside it: refused whatever the rest looks like
        if split[0] == "ok":
            out.append(("fragment-that-leaves-a-section-open-accepted", "inline outcome: %s" % inline[0]))
    elif expect_reject:
        if inline[0] == "ok" and split[0] == "ok":
            out.append(("unbalanced-fragment-accepted", "the fragment closes/leaves open a section of its includer"))
    elif inline[0] == "internal":
        pass
    elif inline[0] != split[0]:
        out.append(("include-changes-verdict:%s-inline-%s-included" % (inline[0], split[0]), ""))
    elif inline[0] == "ok":
        d = digest.first_diff(inline[1], split[1])
        if d:
            out.append(("include-changes-tree", d))
    return inline, split, out


def _decoys(resources, main, real_res, real_main):
    """Files that nothing refers to: for every literal relative '%include' reference written in a
    resource that lives in another directory than the main file, a harmless file under the same
    reference as seen FROM THE MAIN FILE'S directory (unless a resource lives there)."""
    import os
    from urllib.request import url2pathname
    mdir = main.rsplit("/", 1)[0]
    real_mdir = os.path.dirname(url2pathname(real_main[len("file://"):])) if str(real_main).startswith("file://") \
        else os.path.dirname(os.path.realpath(real_main))
    for url, text in resources.items():
        if url.rsplit("/", 1)[0] == mdir:
            continue
        for line in text.split("\n"):
            w = line.strip()
            if not w.startswith("%include ") or "$" in w or ":" in w:
                continue
            ref = w[len("%include "):].strip()
            if model.url_join(main, ref) in resources or model.url_join(url, ref) == model.url_join(main, ref):
                continue
            path = os.path.normpath(os.path.join(real_mdir, *ref.split("/")))
            if os.path.exists(path) or not path.startswith(os.path.dirname(real_mdir)):
                continue
            try:
                os.makedirs(os.path.dirname(path), exist_ok=True)
                with open(path, "w", encoding="utf-8") as f:
                    f.write("# nothing refers to this file\n")
            except OSError:
                pass


def evaluate(case):
    if "chain" in case:
        text, resources = deep_chain(*case["chain"])
        _, _, fl = compare(loadcheck.load_schema_xml(CHAIN_SCHEMA), text, resources)
        return [failure(sig + ":chain-of-%d-includes" % case["chain"][0], case, d) for sig, d in fl]
    try:
        schema, _ = loadcheck.load_schema(case["schema"])
    except Exception:
        return []
    res = case["resources"]
    main = case.get("main", MAIN)
    if main not in res or any(not u.startswith("file:///zcv/") for u in res):
        return []
    try:
        _, _, fl = compare(schema, case["text"], res, main, case.get("unbalanced", False))
    except Exception:
        return []
    return [failure(sig, case, d) for sig, d in fl]


SHRINK_SKIP = {"text", "resources"}


def shards(tier, seed):
    n = 2500 if tier == "thorough" else 250
    return [{"seed": seed, "lo": i * n, "hi": (i + 1) * n} for i in range(16)]


def nontrivial_cut(cuts, resources):
    dirs = set(u.rsplit("/", 1)[0] for u in resources)
    return len(cuts) >= 1 and (len(dirs) > 1 or len(cuts) > 1)


CHAIN_SCHEMA = '<schema><multikey name="m"/><sectiontype name="s"><multikey name="m"/></sectiontype><multisection type="s" name="*" attribute="ss"/></schema>'


def deep_chain(depth, inside):
    """'to any include depth': a chain of includes, every level adding a line before and after its
    include.  -> (the text as one piece, resources)"""
    def lines(k):
        if k == depth:
            return ["m bottom"]
        return ["m before-%d" % k] + lines(k + 1) + ["m after-%d" % k]
    whole = lines(0)
    resources = {}
    for k in range(depth + 1):
        url = MAIN if k == 0 else model.url_join(MAIN, "chain%d.conf" % k)
        if k == depth:
            body = ["m bottom"]
        else:
            body = ["m before-%d" % k, "%%include chain%d.conf" % (k + 1), "m after-%d" % k]
        resources[url] = "".join(l + "\n" for l in body)
    if inside:
        whole = ["<s>"] + whole + ["</s>"]
        resources[MAIN] = "<s>\n" + resources[MAIN] + "</s>\n"
    return "".join(l + "\n" for l in whole), resources


def run_shard(spec):
    res = Result()
    counters = collections.Counter()
    if spec["lo"] == 0:
        chain_schema = loadcheck.load_schema_xml(CHAIN_SCHEMA)
        for depth in (4, 12, 31, 32, 33, 40, 64):
            for inside in (False, True):
                text, resources = deep_chain(depth, inside)
                res.evaluations += 1
                counters["include-chains"] += 1
                inline, split, fl = compare(chain_schema, text, resources)
                if inline[0] == "ok":
                    res.nontrivial(key=["chain", depth, inside])
                for sig, d in fl:
                    res.fail(sig + ":chain-of-%d-includes" % depth, {"chain": [depth, inside]}, d)
        res.exhaustive_parts.append("include chains of depth 4, 12, 31, 32, 33, 40, 64, at top level and inside a section")
    for i in range(spec["lo"], spec["hi"]):
        rng = loadcheck.case_rng(spec["seed"] + 606, i)
        ast = gen.gen_schema(rng)
        sm = refload.compile_schema(ast)
        try:
            schema, xml = loadcheck.load_schema(ast)
        except Exception:  # noqa
            counters["schema-rejected"] += 1
            continue
        for f in (0, 0, 1, 2):
            text = gen.gen_text(rng, sm, f)
            if rng.random() < 0.7:
                text = add_defines(rng, text)
            if f and rng.random() < 0.3:
                # an unbalanced text: drop one opening or closing line
                ls = text.split("\n")
                idx = [k for k, l in enumerate(ls) if l.strip().startswith("<") and not l.strip().endswith("/>")]
                if idx:
                    del ls[rng.choice(idx)]
                    text = "\n".join(ls)
                    counters["text-with-unbalanced-nesting"] += 1
            if not text.strip():
                continue
            for _k in range(2):
                resources, cuts = gen.cut_includes(rng, text, MAIN, absolute_refs=True)
                if not cuts:
                    continue
                res.evaluations += 1
                inline, split, fl = compare(schema, text, resources)
                counters["inline:" + inline[0]] += 1
                counters["cuts:%d" % len(cuts)] += 1
                dep = gen.line_depths(text.split("\n"))
                inside = any(dep[c[2]] > 0 for c in cuts if c[0] == MAIN)
                if inside:
                    counters["cut-inside-section"] += 1
                if any("%define" in resources[c[1]] for c in cuts):
                    counters["fragment-with-define"] += 1
                if inside or nontrivial_cut(cuts, resources) or any("%define" in resources[c[1]] or "$" in resources[c[1]] for c in cuts):
                    res.nontrivial(key=[xml, sorted(resources.items())])
                    if len(res.samples) < 1 and len(cuts) > 1:
                        res.sample({"schema_xml": xml, "resources": resources, "inline_outcome": inline[0]})
                for sig, d in fl:
                    res.fail(sig, {"schema": ast, "text": text, "resources": resources, "main": MAIN}, d)
            di = double_include(rng, text, MAIN)
            if di:
                res.evaluations += 1
                counters["same-fragment-included-twice"] += 1
                twice_text, dres = di
                i2, s2, fl = compare(schema, twice_text, dres)
                counters["twice:" + i2[0]] += 1
                res.nontrivial(key=[xml, sorted(dres.items())])
                for sig, d in fl:
                    res.fail(sig, {"schema": ast, "text": twice_text, "resources": dres, "main": MAIN}, d)
            dc = dangling_cut(rng, text, MAIN) if "%include" not in text else None
            if dc:
                res.evaluations += 1
                counters["fragment-leaves-a-section-open-that-nobody-closes"] += 1
                whole, dres = dc
                i3, s3, fl = compare(schema, whole, dres, expect_reject="always")
                counters["dangling:" + i3[0]] += 1
                res.nontrivial(key=[xml, sorted(dres.items())])
                for sig, d in fl:
                    res.fail(sig, {"schema": ast, "text": whole, "resources": dres, "main": MAIN, "unbalanced": "always"}, d)
            if inline[0] == "ok":
                ub = unbalanced_cut(rng, text, MAIN)
                if ub:
                    res.evaluations += 1
                    counters["unbalanced-cuts"] += 1
                    _, _, fl = compare(schema, text, ub, MAIN, expect_reject=True)
                    res.nontrivial(key=[xml, sorted(ub.items())])
                    for sig, d in fl:
                        res.fail(sig, {"schema": ast, "text": text, "resources": ub, "main": MAIN,
                                       "unbalanced": True}, d)
    res.counters.update(counters)
    return res


def check_coverage(tier, c):
    problems = []
    for k in ("inline:ok", "inline:reject", "cut-inside-section", "fragment-with-define", "unbalanced-cuts",
              "fragment-leaves-a-section-open-that-nobody-closes"):
        if c.get(k, 0) < 50:
            problems.append("class %s has only %d cases" % (k, c.get(k, 0)))
    return problems
