"""C02 -- an accepted configuration yields exactly the typed value tree the schema defines.

Domain: as C01, keeping the texts that both the reference and ZConfig accept.  Oracle: the
value tree computed by zcv.refload (conversions by zcv.refdt) must equal the digest of the
returned configuration: attribute sets, converted values / defaults / None, multikey and
multisection order, wildcard mappings with all-or-nothing defaults, section datatype applied
exactly once, type and lower-cased name.  Plus an aliasing probe: mutating every list/dict
of a returned configuration must not change what the next load of the same text returns.
"""

import collections

from zcv import digest, loadcheck, refload
from zcv.core import Result, failure
from zcv.props import c01

ID = "C02"
LEVEL = "exploration"
RULE = ("the C01 campaign (same schema family and texts; value datatypes string, integer, "
        "boolean, float, port-number, byte-size, time-interval, identifier, basic-key, "
        "string-list, inet-address, null; section datatype zcv.dt.wrap), restricted to texts "
        "accepted by both the reference and ZConfig. Non-trivial = accepted text whose tree has "
        ">= 1 nested section value, >= 1 attribute filled from a schema default and >= 1 filled "
        "from the text; distinct by hash of (schema XML, text).")
ASSUMPTIONS = [
    "zcv/refload.py + zcv/refdt.py are the trusted reference for the tree and the conversions",
    "texts on which acceptance itself differs are C01's business and are not counted here",
    "dict iteration order of wildcard mappings and attribute order are not compared",
]


def mutate_containers(cfg):
    for c in digest.containers(cfg).values():
        if isinstance(c, list):
            c.append("zcv-mutation")
        else:
            c["zcv-mutation"] = "x"


def compare(ast, sm, schema, text):
    ref = refload.ref_load(ast, {loadcheck.MAIN: text}, loadcheck.MAIN, sm=sm, pin=True)
    out = []
    if ref.kind != "accept":
        return ref, None, out
    got = loadcheck.real_load(schema, text)
    if got[0] != "ok":
        return ref, got, out
    problems = []
    d1 = digest.digest(got[1], problems)
    for p in problems:
        out.append(("attribute-set-mismatch", p))
    diff = digest.first_diff(ref.tree, d1)
    if diff:
        tag = ":pinned-resolution-" + "-".join(sorted(set(ref.pinned))) if ref.pinned else ""
        out.append((classify(diff) + tag, "expected-vs-got at %s" % diff))
    # aliasing: mutate everything reachable, load again
    mutate_containers(got[1])
    again = loadcheck.real_load(schema, text)
    if again[0] != "ok":
        out.append(("second-load-fails-after-mutation", repr(again[1])))
    else:
        d2 = digest.digest(again[1])
        diff2 = digest.first_diff(d1, d2)
        if diff2:
            out.append(("result-aliases-schema-or-earlier-result", diff2))
        shared = set(digest.containers(got[1])) & set(digest.containers(again[1]))
        if shared:
            out.append(("two-loads-share-a-container", "%d shared" % len(shared)))
    return ref, got, out


def classify(diff):
    path = diff.split(":")[0]
    if "keys" in diff and "/attrs" in path.rsplit("/", 1)[-1:][0]:
        return "wrong-tree:attribute-set"
    last = path.rsplit("/", 1)[-1]
    if last == "name" or last == "type":
        return "wrong-tree:section-" + last
    if "length" in diff:
        return "wrong-tree:list-length"
    if "/W" in path or "'W'" in diff:
        return "wrong-tree:section-datatype"
    return "wrong-tree:value"


def evaluate(case):
    ast = case["schema"]
    try:
        sm = refload.compile_schema(ast)
        schema, _xml = loadcheck.load_schema(ast)
    except Exception:
        return []
    _, _, fl = compare(ast, sm, schema, case["text"])
    return [failure(sig, case, d) for sig, d in fl]


def shards(tier, seed):
    n = 12000 if tier == "thorough" else 1300
    return [{"seed": seed, "lo": i * n, "hi": (i + 1) * n} for i in range(16)]


def run_shard(spec):
    res = Result()
    counters = collections.Counter()
    for i in range(spec["lo"], spec["hi"]):
        ast, sm, texts = loadcheck.gen_case(spec["seed"], i)
        try:
            schema, xml = loadcheck.load_schema(ast)
        except Exception:  # noqa   (reported by C01/C10)
            counters["schema-rejected"] += 1
            continue
        for text in texts:
            ref, got, fl = compare(ast, sm, schema, text)
            if ref.kind != "accept" or got is None or got[0] != "ok":
                counters["skipped:" + ref.kind] += 1
                continue
            res.evaluations += 1
            st = ref.stats
            counters["accepted"] += 1
            if st["defaults_used"]:
                counters["uses-defaults"] += 1
            if st["nested"] >= 2:
                counters["nested>=2"] += 1
            if st["sections"] >= 1 and st["defaults_used"] >= 1 and st["text_values"] >= 1:
                res.nontrivial(key=xml + "\0" + text)
                if len(res.samples) < 1:
                    res.sample({"schema_xml": xml, "text": text, "tree": ref.tree})
            for sig, d in fl:
                res.fail(sig, {"schema": ast, "text": text}, d)
    res.counters.update(counters)
    return res


def check_coverage(tier, c):
    problems = []
    if c.get("accepted", 0) < 1000:
        problems.append("only %d accepted texts compared" % c.get("accepted", 0))
    if c.get("uses-defaults", 0) < 200:
        problems.append("only %d texts use schema defaults" % c.get("uses-defaults", 0))
    return problems
