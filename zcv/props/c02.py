"""C02 -- an accepted configuration yields exactly the typed value tree the schema defines.

Domain: as C01, keeping the texts that both the reference and ZConfig accept.  Oracle: the
value tree computed by zcv.refload (conversions by zcv.refdt) must equal the digest of the
returned configuration: attribute sets, converted values / defaults / None, multikey and
multisection order, wildcard mappings with all-or-nothing defaults, section datatype applied
exactly once, type and lower-cased name.  Plus an aliasing probe: mutating every list/dict
of a returned configuration must not change what the next load of the same text returns.
"""

import collections

from zcv import digest, loadcheck, refload
from zcv.core import Result, failure
from zcv.props import c01

ID = "C02"
LEVEL = "exploration"
RULE = ("the C01 campaign (same schema family and texts; value datatypes string, integer, "
        "boolean, float, port-number, byte-size, time-interval, identifier, basic-key, "
        "string-list, inet-address, null; section datatype zcv.dt.wrap), restricted to texts "
        "accepted by both the reference and ZConfig. Non-trivial = accepted text whose tree has "
        ">= 1 nested section value, >= 1 attribute filled from a schema default and >= 1 filled "
        "from the text; distinct by hash of (schema XML, text).")
ASSUMPTIONS = [
    "zcv/refload.py + zcv/refdt.py are the trusted reference for the tree and the conversions",
    "texts on which acceptance itself differs are C01's business and are not counted here",
    "dict iteration order of wildcard mappings and attribute order are not compared",
]


def mutate_containers(cfg):
    for c in digest.containers(cfg).values():
        if isinstance(c, list):
            c.append("zcv-mutation")
        else:
            c["zcv-mutation"] = "x"


def compare(ast, sm, schema, text):
    ref = refload.ref_load(ast, {loadcheck.MAIN: text}, loadcheck.MAIN, sm=sm, pin=True)
    out = []
    if ref.kind != "accept":
        return ref, None, out
    got = loadcheck.real_load(schema, text)
    if got[0] != "ok":
        return ref, got, out
    problems = []
    d1 = digest.digest(got[1], problems)
    for p in problems:
        out.append(("attribute-set-mismatch", p))
    diff = digest.first_diff(ref.tree, d1)
    if diff:
        tag = ":pinned-resolution-" + "-".join(sorted(set(ref.pinned))) if ref.pinned else ""
        out.append((classify(diff) + tag, "expected-vs-got at %s" % diff))
    # aliasing: mutate everything reachable, load again
    mutate_containers(got[1])
    again = loadcheck.real_load(schema, text)
    if again[0] != "ok":
        out.append(("second-load-fails-after-mutation", repr(again[1])))
    else:
        d2 = digest.digest(again[1])
        diff2 = digest.first_diff(d1, d2)
        if diff2:
            out.append(("result-aliases-schema-or-earlier-result", diff2))
        shared = set(digest.containers(got[1])) & set(digest.containers(again[1]))
        if shared:
            out.append(("two-loads-share-a-container", "%d shared" % len(shared)))
    return ref, got, out


def classify(diff):
    path = diff.split(":")[0]
    if "keys" in diff and "/attrs" in path.rsplit("/", 1)[-1:][0]:
        return "wrong-tree:attribute-set"
    last = path.rsplit("/", 1)[-1]
    if last == "name" or last == "type":
        return "wrong-tree:section-" + last
    if "length" in diff:
        return "wrong-tree:list-length"
    if "/W" in path or "'W'" in diff:
        return "wrong-tree:section-datatype"
    return "wrong-tree:value"


def evaluate(case):
    if "generations" in case:
        return [failure(sig, case, d) for sig, d in module_generations(case)]
    ast = case["schema"]
    try:
        sm = refload.compile_schema(ast)
        schema, _xml = loadcheck.load_schema(ast)
    except Exception:
        return []
    _, _, fl = compare(ast, sm, schema, case["text"])
    return [failure(sig, case, d) for sig, d in fl]


def shards(tier, seed):
    n = 12000 if tier == "thorough" else 1300
    specs = [{"seed": seed, "lo": i * n, "hi": (i + 1) * n} for i in range(16)]
    specs.append({"seed": seed, "generations": 40 if tier == "thorough" else 8})
    return specs


MODULE_SRC = """
class W:
    def __init__(self, v, g):
        self.v, self.g = v, g


def scale(value):
    return int(value) * %(factor)d


def wrap(section):
    return W(section, %(gen)d)
"""

GEN_SCHEMA = """<schema>
  <sectiontype name="part" datatype="%(mod)s.wrap">
    <key name="width" datatype="%(mod)s.scale" default="2"/>
    <key name="depth" datatype="%(mod)s.scale"/>
  </sectiontype>
  <multisection name="*" type="part" attribute="parts"/>
  <key name="top" datatype="%(mod)s.scale" default="5"/>
</schema>"""


def module_generations(case):
    """A datatype named by dotted Python name is the callable the name denotes when the schema
    is loaded: the same name, in one interpreter, over several generations of the module behind
    it (another sys.path entry provides it; the sys.modules entry replaced).  -> [(sig, detail)]"""
    import importlib
    import io
    import os
    import shutil
    import sys
    import tempfile
    ZConfig = loadcheck.zc()
    out = []
    mod = case["module"]
    base = tempfile.mkdtemp(prefix="zcv-c02-")
    try:
        for g, (factor, how) in enumerate(case["generations"]):
            d = os.path.join(base, "g%d" % g)
            os.mkdir(d)
            with open(os.path.join(d, mod + ".py"), "w") as f:
                f.write(MODULE_SRC % {"factor": factor, "gen": g})
            sys.path.insert(0, d)
            importlib.invalidate_caches()
            if how == "reload" and mod in sys.modules:
                importlib.reload(sys.modules[mod])
            else:
                sys.modules.pop(mod, None)
            try:
                schema = ZConfig.loadSchemaFile(io.StringIO(GEN_SCHEMA % {"mod": mod}))
                cfg, _ = ZConfig.loadConfigFile(schema, io.StringIO("<part a>\n depth 3\n</part>\n<part b>\n width 4\n depth 1\n</part>\ntop 7\n"))
                got = (cfg.top, [(type(p).__name__, getattr(p, "g", None), p.v.width, p.v.depth) for p in cfg.parts])
                want = (7 * factor, [("W", g, 2 * factor, 3 * factor), ("W", g, 4 * factor, 1 * factor)])
                if got != want:
                    out.append(("datatype-name-resolved-to-an-earlier-generation-of-its-module",
                                "generation %d (%s): %r expected %r" % (g, how, got, want)))
                    break
            except Exception as e:  # noqa
                out.append(("datatype-module-generation:raises:%s" % type(e).__name__, "generation %d: %s" % (g, e)))
                break
            finally:
                sys.path.remove(d)
    finally:
        sys.modules.pop(mod, None)
        importlib.invalidate_caches()
        shutil.rmtree(base, ignore_errors=True)
    return out


def run_shard(spec):
    res = Result()
    counters = collections.Counter()
    if "generations" in spec:
        for k in range(spec["generations"]):
            rng = loadcheck.case_rng(spec["seed"] + 202, k)
            case = {"module": "zcvgen%d" % (k % 2), "generations": [(rng.choice([1, 2, 3, 10, 100]), rng.choice(["replace", "replace", "reload"]))
                                                                   for _ in range(rng.randint(2, 4))]}
            res.evaluations += 1
            if len(set(f for f, _ in case["generations"])) > 1:
                res.nontrivial(key=case)
            counters["module-generation-histories"] += 1
            for sig, d in module_generations(case):
                res.fail(sig, case, d)
        res.counters.update(counters)
        return res
    for i in range(spec["lo"], spec["hi"]):
        ast, sm, texts = loadcheck.gen_case(spec["seed"], i)
        try:
            schema, xml = loadcheck.load_schema(ast)
        except Exception:  # noqa   (reported by C01/C10)
            counters["schema-rejected"] += 1
            continue
        for text in texts:
            ref, got, fl = compare(ast, sm, schema, text)
            if ref.kind != "accept" or got is None or got[0] != "ok":
                counters["skipped:" + ref.kind] += 1
                continue
            res.evaluations += 1
            st = ref.stats
            counters["accepted"] += 1
            if st["defaults_used"]:
                counters["uses-defaults"] += 1
            if st["nested"] >= 2:
                counters["nested>=2"] += 1
            if st["sections"] >= 1 and st["defaults_used"] >= 1 and st["text_values"] >= 1:
                res.nontrivial(key=xml + "\0" + text)
                if len(res.samples) < 1:
                    res.sample({"schema_xml": xml, "text": text, "tree": ref.tree})
            for sig, d in fl:
                res.fail(sig, {"schema": ast, "text": text}, d)
    res.counters.update(counters)
    return res


def check_coverage(tier, c):
    problems = []
    if c.get("accepted", 0) < 1000:
        problems.append("only %d accepted texts compared" % c.get("accepted", 0))
    if c.get("uses-defaults", 0) < 200:
        problems.append("only %d texts use schema defaults" % c.get("uses-defaults", 0))
    return problems
