"""C01 -- a configuration is accepted if and only if it conforms to the schema.

Domain: the generated schema family (zcv.gen.gen_schema) x schema-guided texts with 0..3
fault levels.  Oracle: zcv.refload.ref_load (reads the schema AST and the text; never
ZConfig).  ACCEPT => the load returns; REJECT => a ZConfig.ConfigurationError is raised;
UNSPECIFIED => executed, not compared.
"""

import collections

from zcv import gen, loadcheck, refload
from zcv.core import Result, failure

ID = "C01"
LEVEL = "exploration"
RULE = ("random schemas of the generated family (nesting <= 3; key, multikey, '+' key, '+' "
        "multikey with/without defaults and required; section/multisection slots named "
        "fixed/'*'/'+'; 0..3 abstract types with 0..3 implementers; derived types; key types "
        "basic-key/identifier/ipaddr-or-hostname), six texts per schema assembled from the "
        "schema's vocabulary with fault levels 0,0,1,1,2,3 (missing required items, repeated "
        "single keys/slots, reused names, wrong/abstract/unknown types, wrong name rules, "
        "unconvertible keys and values, out-of-vocabulary keys, syntax faults). Non-trivial = "
        "text with >= 1 section header or >= 3 key lines whose reference verdict is ACCEPT or a "
        "REJECT by a semantic (non-syntax) rule; distinct by hash of (schema XML, text).")
ASSUMPTIONS = [
    "zcv/refload.py + zcv/model.py + zcv/refdt.py are the trusted reference (DESIGN appendix A)",
    "zones U1-U3 (which of several claiming children receives a header or key line) are decided by the resolution rule of the pinned tree -- first claiming child in declaration order -- and such cases are counted as pinned-resolution:*; zone U4 and the key-type zones are executed but not compared (counted per zone)",
    "the kind of ConfigurationError and its message are not compared (line numbers are C08's business)",
]


def compare(ast, sm, schema, text, res=None):
    """-> (outcome, [(sig, detail)])"""
    ref = refload.ref_load(ast, {loadcheck.MAIN: text}, loadcheck.MAIN, sm=sm, pin=True)
    got = loadcheck.real_load(schema, text)
    out = []
    if ref.kind == "unspec":
        return ref, got, out
    tag = ":pinned-resolution-" + "-".join(sorted(set(ref.pinned))) if ref.pinned else ""
    if got[0] == "internal":
        out.append(("internal:%s:%s" % (type(got[1]).__name__, got[2]),
                    "reference %r; raised %r" % (ref, got[1])))
    elif ref.kind == "accept" and got[0] != "ok":
        out.append(("rejected-but-conforming" + tag, "raised %s: %s" % (type(got[1]).__name__, got[1])))
    elif ref.kind == "reject" and got[0] == "ok":
        out.append(("accepted-but-nonconforming:%s%s" % (ref.rule, tag), "reference %r" % ref))
    return ref, got, out


def evaluate(case):
    ast = case["schema"]
    try:
        sm = refload.compile_schema(ast)
    except Exception:
        return []          # a shrunk schema AST that is no longer in the family
    try:
        schema, _xml = loadcheck.load_schema(ast)
    except Exception as e:  # noqa
        if case.get("_shrinking"):
            return []
        return [failure("generated-schema-rejected", case, repr(e))]
    if case.get("optimise"):
        import json
        from zcv import digest, optprobe
        got = loadcheck.real_load(schema, case["text"])
        w = ("ok:" + json.dumps(digest.digest(got[1]), sort_keys=True, default=repr)) if got[0] == "ok" else got[0]
        g = optprobe.verdicts([{"xml": _xml, "text": case["text"]}], "-O")[0]
        return [] if g == w or got[0] == "internal" else [failure("outcome-under-python-O-differs:%s-vs-%s" % (g.split(":")[0], w.split(":")[0]), case, "")]
    _, _, fl = compare(ast, sm, schema, case["text"])
    return [failure(sig, case, d) for sig, d in fl]


def shards(tier, seed):
    n = 12000 if tier == "thorough" else 1300
    specs = [{"seed": seed, "lo": i * n, "hi": (i + 1) * n} for i in range(16)]
    specs.extend({"seed": seed, "lo": k * 400, "hi": (k + 1) * 400, "optimise": True} for k in range(10 if tier == "thorough" else 3))
    return specs


def nontrivial_text(text, ref):
    heads = keys = 0
    for l in text.split("\n"):
        s = l.strip()
        if not s or s[0] in "#%":
            continue
        if s[0] == "<":
            if s[1:2] != "/":
                heads += 1
        else:
            keys += 1
    if not (heads >= 1 or keys >= 3):
        return False
    return ref.kind == "accept" or (ref.kind == "reject" and not ref.rule.startswith("syntax"))


def run_optimised(spec, res):
    """The same loads in an interpreter started with -O: verdict and value tree must not depend
    on whether assert statements exist."""
    import json
    from zcv import digest, optprobe
    jobs, want = [], []
    for i in range(spec["lo"], spec["hi"]):
        ast, sm, texts = loadcheck.gen_case(spec["seed"], i)
        xml = gen.render_schema(ast)
        try:
            schema = loadcheck.load_schema_xml(xml)
        except Exception:  # noqa
            continue
        for text in texts:
            got = loadcheck.real_load(schema, text)
            if got[0] == "ok":
                w = "ok:" + json.dumps(digest.digest(got[1]), sort_keys=True, default=repr)
            elif got[0] == "reject":
                w = "reject"
            else:
                continue
            jobs.append({"xml": xml, "text": text, "schema": ast})
            want.append(w)
    got = optprobe.verdicts([{"xml": j["xml"], "text": j["text"]} for j in jobs], "-O")
    for job, w, g in zip(jobs, want, got):
        res.evaluations += 1
        if g != w:
            res.fail("outcome-under-python-O-differs:%s-vs-%s" % (g.split(":")[0], w.split(":")[0]),
                     {"schema": job["schema"], "text": job["text"], "optimise": True}, "with -O: %s ; without: %s" % (g[:150], w[:150]))
    return res


def run_shard(spec):
    res = Result()
    counters = collections.Counter()
    if spec.get("optimise"):
        return run_optimised(spec, res)
    for i in range(spec["lo"], spec["hi"]):
        ast, sm, texts = loadcheck.gen_case(spec["seed"], i)
        try:
            schema, xml = loadcheck.load_schema(ast)
        except Exception as e:  # noqa
            counters["schema-rejected"] += 1
            res.fail("generated-schema-rejected", {"schema": ast, "text": ""}, repr(e))
            continue
        loadcheck.schema_features(ast, counters)
        counters["schemas"] += 1
        for text in texts:
            res.evaluations += 1
            ref, got, fl = compare(ast, sm, schema, text)
            for z in set(ref.pinned):
                counters["pinned-resolution:" + z] += 1
            if ref.kind == "unspec":
                counters["unspecified:" + ref.zone] += 1
                counters["verdict:unspec"] += 1
            elif ref.kind == "accept":
                counters["verdict:accept"] += 1
                counters["depth:%d" % ref.stats["nested"]] += 1
            else:
                counters["verdict:reject"] += 1
                counters["rule:" + ref.rule] += 1
            if nontrivial_text(text, ref):
                res.nontrivial(key=xml + "\0" + text)
                if len(res.samples) < 1 and ref.kind == "reject":
                    res.sample({"schema_xml": xml, "text": text, "reference": repr(ref)})
            for sig, d in fl:
                res.fail(sig, {"schema": ast, "text": text}, d)
    res.counters.update(counters)
    return res


def check_coverage(tier, c):
    problems = []
    total = c.get("verdict:accept", 0) + c.get("verdict:reject", 0) + c.get("verdict:unspec", 0)
    if total:
        if c.get("verdict:accept", 0) < 0.15 * total:
            problems.append("only %d of %d texts accepted by the reference" % (c.get("verdict:accept", 0), total))
        if c.get("verdict:reject", 0) < 0.15 * total:
            problems.append("only %d of %d texts rejected by the reference" % (c.get("verdict:reject", 0), total))
        if c.get("verdict:unspec", 0) > 0.2 * total:
            problems.append("%d of %d texts in unspecified zones" % (c.get("verdict:unspec", 0), total))
    if tier == "thorough":
        for r in refload.SEMANTIC_RULES:
            if r in ("section-datatype",):
                continue
            if c.get("rule:" + r, 0) == 0:
                problems.append("rule class %s never exercised" % r)
    return problems
