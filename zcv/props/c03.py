"""C03 -- configuration text is read by the documented line grammar and nothing else.

Oracle: zcv.model.ref_events (hand-written line scanner).  Two observation points:
ZConfig.schemaless.loadConfigFile (nested mapping) and ZConfig.cfgparser.ZConfigParser
driven with a recording context (event list incl. define/include/import).
"""

import io
import itertools

from zcv import linegen, model
from zcv.core import Result, failure

ID = "C03"
LEVEL = "exploration"
RULE = ("(a) every sequence of up to 4 (quick) / 5 (thorough) tokens over the 16-token alphabet "
        "< > / % # ( ) $$ a B 1 - space tab U+2003 e-acute as the only line, as the line inside "
        "<a>..</a> and as the line after an unclosed <a>; (b) every text of up to 4 lines over 14 "
        "complete-line shapes, and of up to 3 lines over 28 shapes incl. directives through the "
        "recording context; (c) Hypothesis texts (<= 40 lines, depth <= 6). Non-trivial = some "
        "line is neither blank/comment nor a plain 'key value', or the text has >= 2 section "
        "events; distinct by (text, observation point): enumerated texts are distinct by "
        "construction, random ones by hash.")
ASSUMPTIONS = [
    "reference line scanner zcv.model.ref_events / classify_line is a faithful reading of docs/using-zconfig.rst and the C03 statement",
    "a lone '$' is C04's business: generated texts contain '$' only as '$$', '$name' or '${name}'",
    "redefinition of a %define name inside one text is C05's business and is not compared here",
    "only the verdict and, for accepted texts, the complete structure / event list are compared; line numbers are C08's business",
]
URL = "file:///zcv/main.conf"


def _mods():
    import ZConfig
    import ZConfig.cfgparser
    import ZConfig.schemaless
    return ZConfig


# environment variables the line shapes refer to: set to nothing, set to a word, not set
import os as _os
_os.environ["ZCV_EMPTY"] = ""
_os.environ["ZCV_WORD"] = "w"
_os.environ.pop("ZCV_UNSET", None)
ENV = {"ZCV_EMPTY": "", "ZCV_WORD": "w"}

# ---------------------------------------------------------------- reference


def expected_schemaless(text):
    """-> ('ok', tree) | ('reject',) | ('unspec', why) | ('notimpl',)

    One sequential pass (the first problem in reading order decides)."""
    top = {"type": "", "name": "", "keys": {}, "sections": []}
    imports = []
    stack = [top]
    open_types = []
    for raw in model.physical_lines(text):
        try:
            ev = model.classify_line(raw)
        except model.SyntaxReject:
            return ("reject",)
        kind = ev[0]
        if kind in ("blank", "comment"):
            continue
        if kind == "open":
            sec = {"type": ev[1], "name": ev[2], "keys": {}, "sections": []}
            stack[-1]["sections"].append(sec)
            if not ev[3]:
                stack.append(sec)
                open_types.append(ev[1])
        elif kind == "close":
            if not open_types or open_types.pop() != ev[1]:
                return ("reject",)
            stack.pop()
        elif kind in ("key", "import"):
            v = ev[2] if kind == "key" else ev[1]
            if v:
                try:
                    v = model.ref_subst(v, {}, ENV)
                except model.SubstMissing:
                    return ("reject",)
                except (model.SubstSyntax, model.Unspecified):
                    return ("unspec", "subst")
            if kind == "key":
                stack[-1]["keys"].setdefault(ev[1], []).append(v)
            elif v not in imports:
                imports.append(v)
        else:
            return ("notimpl",)
    if open_types:
        return ("reject",)
    return ("ok", {"top": top, "imports": imports})


def expected_recording(text, url=URL):
    """-> ('ok', events, defines) | ('reject',) | ('unspec', why)"""
    try:
        events = model.ref_events(text)
    except model.SyntaxReject as e:
        # semantic problems on earlier lines (undefined reference, illegal define name)
        # also reject; either way the verdict is 'reject' -- unless an earlier line is
        # in an unspecified zone
        # 'unclosed sections' is noticed after the last line: every line is part of the prefix
        upto = e.lineno + 1 if e.why == "unclosed sections" else e.lineno
        pre = _prefix_status(text, upto)
        return pre if pre[0] == "unspec" else ("reject",)
    return _walk(events, url)


def _prefix_status(text, upto):
    lines = model.physical_lines(text)[:upto - 1]
    evs = []
    n = 0
    for raw in lines:
        n += 1
        ev = model.classify_line(raw)
        if ev[0] not in ("blank", "comment"):
            evs.append((n, ev))
    r = _walk(evs, URL, balanced=False)
    return r


def _walk(events, url, balanced=True):
    out = []
    defs = {}
    names = []
    base = url.rsplit("/", 1)[0] + "/"
    for lineno, ev in events:
        kind = ev[0]
        try:
            if kind == "open":
                out.append(["start", ev[1], ev[2]])
                if ev[3]:
                    out.append(["end", ev[1], ev[2]])
                else:
                    names.append(ev[2])
            elif kind == "close":
                out.append(["end", ev[1], names.pop() if names else None])
            elif kind == "key":
                v = ev[2]
                if v:
                    v = model.ref_subst(v, defs, ENV)
                out.append(["value", ev[1], v, lineno])
            elif kind == "import":
                out.append(["import", model.ref_subst(ev[1], defs, ENV)])
            elif kind == "include":
                arg = model.ref_subst(ev[1], defs, ENV)
                if not _simple_name(arg):
                    return ("unspec", "include-arg")
                out.append(["include", base + arg])
            elif kind == "define":
                arg = ev[1]
                i = 0
                while i < len(arg) and not arg[i].isspace():
                    i += 1
                name = arg[:i].lower()
                raw = model.lstrip_ws(arg[i:])
                if not model.ref_isname(name):
                    if model.ref_isname(arg[:i]) != model.ref_isname(name):
                        return ("unspec", "U11")
                    return ("reject",)
                if name in defs:
                    return ("unspec", "redefinition")
                defs[name] = model.ref_subst(raw, defs, ENV)
        except model.SubstMissing:
            return ("reject",)
        except model.SubstSyntax:
            return ("unspec", "subst-syntax")
        except model.Unspecified as e:
            return ("unspec", e.zone)
    return ("ok", out, defs)


def _simple_name(s):
    return bool(s) and all(c in model.NAME_CHARS for c in s)


# ---------------------------------------------------------------- observation


def observe_schemaless(text):
    ZConfig = _mods()
    try:
        top = ZConfig.schemaless.loadConfigFile(io.StringIO(text), URL)
    except NotImplementedError:
        return ("notimpl",)
    except ZConfig.ConfigurationSyntaxError:
        return ("reject",)
    except ZConfig.ConfigurationError as e:
        return ("reject-other", type(e).__name__)
    except Exception as e:  # noqa
        return ("internal", type(e).__name__, repr(e))

    def conv(sec):
        return {"type": sec.type, "name": sec.name,
                "keys": {k: list(v) for k, v in sec.items()},
                "sections": [conv(s) for s in sec.sections]}
    try:
        return ("ok", {"top": conv(top), "imports": list(top.imports)})
    except Exception as e:  # noqa
        return ("internal", type(e).__name__, repr(e))


class _Sec:
    def __init__(self, log):
        self.log = log

    def addValue(self, key, value, position):
        self.log.append(["value", key, value, position[0]])


class _Ctx:
    def __init__(self):
        self.log = []

    def startSection(self, section, type_, name):
        self.log.append(["start", type_, name])
        return _Sec(self.log)

    def endSection(self, section, type_, name, newsect):
        self.log.append(["end", type_, name])

    def importSchemaComponent(self, pkgname):
        self.log.append(["import", pkgname])

    def includeConfiguration(self, section, newurl, defines):
        self.log.append(["include", newurl])
        self.defines_seen = defines


class _Res:
    def __init__(self, text, url):
        self.file = io.StringIO(text)
        self.url = url


_PRESERVING = []


def observe_recording(text, url=URL):
    ZConfig = _mods()
    # another parser class in the same process -- the hook "factored out solely to allow
    # subclasses to modify the behavior of the parser", here: names keep their case -- reads the
    # text first; what it does is its own business and must not reach the stock parser
    if not _PRESERVING:
        class Preserving(ZConfig.cfgparser.ZConfigParser):
            def _normalize_case(self, string):
                return string
        _PRESERVING.append(Preserving)
    try:
        c0 = _Ctx()
        _PRESERVING[0](_Res(text, url), c0).parse(_Sec(c0.log))
    except Exception:  # noqa
        pass
    ctx = _Ctx()
    try:
        p = ZConfig.cfgparser.ZConfigParser(_Res(text, url), ctx)
        p.parse(_Sec(ctx.log))
    except ZConfig.ConfigurationSyntaxError:
        return ("reject",)
    except ZConfig.ConfigurationError as e:
        return ("reject-other", type(e).__name__)
    except Exception as e:  # noqa
        return ("internal", type(e).__name__, repr(e))
    return ("ok", ctx.log, dict(p.defines))


def _cmp(want, got, where):
    if want[0] == "unspec":
        return None
    if got[0] == "internal":
        return ("%s:internal:%s" % (where, got[1]), got[2])
    if want[0] == "ok":
        if got[0] != "ok":
            return ("%s:rejected-but-valid" % where, "got %r" % (got,))
        if list(got[1:]) != list(want[1:]):
            return ("%s:wrong-structure" % where, "got %r want %r" % (got[1:], want[1:]))
        return None
    if want[0] == "notimpl":
        if got[0] != "notimpl":
            return ("%s:directive-not-refused" % where, "got %r" % (got,))
        return None
    # want reject
    if got[0] == "ok":
        return ("%s:accepted-but-invalid" % where, "got %r" % (got[1:],))
    if got[0] == "reject-other":
        return ("%s:not-a-syntax-error" % where, got[1])
    if got[0] == "notimpl":
        return ("%s:rejected-but-valid" % where, "NotImplementedError")
    return None


def check_text(text, modes=("schemaless", "recording")):
    out = []
    if "schemaless" in modes:
        r = _cmp(expected_schemaless(text), observe_schemaless(text), "schemaless")
        if r:
            out.append(r)
    if "recording" in modes:
        r = _cmp(expected_recording(text), observe_recording(text), "recording")
        if r:
            out.append(r)
        if "%" not in text and any(c in text for c in ODD_LINE_CHARS):
            # the same text as a real file that the loader opens itself: characters that some
            # readers take for line ends (a lone CR, FF, NEL, U+2028 ...) are ordinary characters
            r = _cmp(expected_recording(text), observe_recording_file(text), "recording-file")
            if r:
                out.append(r)
    return out


ODD_LINE_CHARS = "\r\x0b\x0c\x1c\x1d\x1e\x85\u2028\u2029"
_TMP = {}


def observe_recording_file(text):
    import os
    import tempfile
    ZConfig = _mods()
    import ZConfig.loader
    d = _TMP.get(os.getpid())
    if d is None or not os.path.isdir(d):
        d = _TMP[os.getpid()] = tempfile.mkdtemp(prefix="zcv-c03-")
    path = os.path.join(d, "main.conf")
    with open(path, "wb") as f:
        f.write(text.encode("utf-8"))
    if "loader" not in _TMP:
        class _Opener(ZConfig.loader.BaseLoader):
            def loadResource(self, resource):      # never used: the parser is driven by hand
                raise NotImplementedError
        _TMP["loader"] = _Opener
    loader = _TMP["loader"]()
    ctx = _Ctx()
    try:
        r = loader.openResource(loader.normalizeURL(path))
        try:
            p = ZConfig.cfgparser.ZConfigParser(r, ctx)
            p.parse(_Sec(ctx.log))
        finally:
            r.close()
    except ZConfig.ConfigurationSyntaxError:
        return ("reject",)
    except ZConfig.ConfigurationError as e:
        return ("reject-other", type(e).__name__)
    except Exception as e:  # noqa
        return ("internal", type(e).__name__, repr(e))
    return ("ok", ctx.log, dict(p.defines))


def evaluate(case):
    return [failure(sig, case, d) for sig, d in
            check_text(case["text"], tuple(case.get("modes", ("schemaless", "recording"))))]


SHRINK_SKIP = {"modes"}


def nontrivial_text(text):
    nsec = 0
    odd = False
    for raw in model.physical_lines(text):
        line = model.strip_ws(raw)
        if not line or line[0] == "#":
            continue
        if line[0] == "<":
            nsec += 1
            continue
        if line[0] == "%":
            odd = True
            continue
        kv = model.split_key_value(line)
        if kv is None or kv[1] == "" or not all(c in model.NAME_CHARS for c in kv[0]):
            odd = True
    return odd or nsec >= 2


# ---------------------------------------------------------------- campaigns


TAG_TOKENS = ["<", ">", "/", "#", "a", " "]


def shards(tier, seed):
    maxtok = 4 if tier == "quick" else 5
    specs = []
    firsts = linegen.TOKENS
    for f in firsts:
        specs.append({"part": "single", "first": f, "maxtok": maxtok})
    for second in TAG_TOKENS:
        specs.append({"part": "tags", "second": second, "maxtok": maxtok + 2})
    nsh = len(linegen.LINE_SHAPES)
    for i in range(nsh):
        specs.append({"part": "multi", "first": i, "maxlines": 4})
    both = linegen.LINE_SHAPES + linegen.DIRECTIVE_SHAPES
    for i in range(len(both)):
        specs.append({"part": "multi-dir", "first": i, "maxlines": 3})
    per = 300 if tier == "quick" else 5000
    specs.append({"part": "long"})
    for i in range(16):
        specs.append({"part": "random", "seed": seed * 1000 + i, "n": per,
                      "directives": i % 2 == 1})
    specs.append({"part": "atheris", "seed": seed, "runs": 15000 if tier == "quick" else 800000})
    return specs


def _do(res, text, modes):
    for m in modes:
        res.evaluations += 1
    nt = nontrivial_text(text)
    if nt:
        res.nontrivial_count += len(modes)
    for sig, d in check_text(text, modes):
        res.fail(sig, {"text": text, "modes": list(modes)}, d)
    return nt


def run_shard(spec):
    res = Result()
    part = spec["part"]
    if part == "atheris":
        import sys
        from zcv import fuzzrun
        fuzzrun.run(res, sys.modules[__name__], ID, spec["runs"], spec["seed"], max_len=200, timeout=1500)
        return res
    if part == "long":
        # size classes: one physical line far longer than any buffer (it is still one line)
        for n in (8191, 8192, 8193, 65535, 65536, 65537, 70000, 200000, (1 << 20) - 1, (1 << 20) + 5):
            for text in ("k " + "v" * n + "\nk2 w\n", "k" * n + " v\nk2 w\n", "# " + "c" * n + "\nk v\n",
                         "<a " + "n" * n + ">\nk v\n</a>\n", "<a>\n  k " + "v" * n + "\n</a>\n",
                         "k v" + " " * n + "\n<a/>\n"):
                _do(res, text, ("schemaless", "recording"))
        res.exhaustive_parts.append("very long lines (8 Ki, 64 Ki, 1 Mi characters) as value, key, comment, section name, trailing blanks")
        return res
    if part == "tags":
        # longer lines over the few tokens section tags are made of
        for n in range(0, spec["maxtok"] - 1):
            for t in itertools.product(TAG_TOKENS, repeat=n):
                line = "<" + spec["second"] + "".join(t)
                for text in linegen.contexts(line):
                    _do(res, text, ("schemaless", "recording"))
        res.exhaustive_parts.append("tag lines: '<' followed by all sequences of <= %d tokens over %r in 3 contexts"
                                    % (spec["maxtok"] - 1, TAG_TOKENS))
        return res
    if part == "single":
        f = spec["first"]
        lines = linegen.single_lines_with_first([f], spec["maxtok"])
        if f == "<":
            lines = itertools.chain([""], lines)
        for line in lines:
            for text in linegen.contexts(line):
                nt = _do(res, text, ("schemaless", "recording"))
            if nt and len(line) > 3:
                res.sample({"text": text}, limit=1)
        res.exhaustive_parts.append(
            "single lines: all sequences of <= %d tokens over %r in 3 contexts"
            % (spec["maxtok"], linegen.TOKENS))
    elif part == "multi":
        shapes = linegen.LINE_SHAPES
        first = shapes[spec["first"]]
        if spec["first"] == 0:
            _do(res, "", ("schemaless", "recording"))
        for n in range(0, spec["maxlines"]):
            for t in itertools.product(shapes, repeat=n):
                text = "\n".join((first,) + t) + ("\n" if n % 2 else "")
                nt = _do(res, text, ("schemaless", "recording"))
                if nt and n == 3:
                    res.sample({"text": text}, limit=1)
        res.exhaustive_parts.append("multi-line: all texts of <= %d lines over %r"
                                    % (spec["maxlines"], shapes))
    elif part == "multi-dir":
        shapes = linegen.LINE_SHAPES + linegen.DIRECTIVE_SHAPES
        first = shapes[spec["first"]]
        for n in range(0, spec["maxlines"]):
            for t in itertools.product(shapes, repeat=n):
                if first in linegen.LINE_SHAPES and all(x in linegen.LINE_SHAPES for x in t):
                    continue   # covered by 'multi'
                text = "\n".join((first,) + t)
                want = expected_recording(text)
                res.count("recording:" + want[0] + (":" + want[1] if want[0] == "unspec" else ""))
                nt = _do(res, text, ("recording", "schemaless"))
                if nt and n == 2 and want[0] == "ok":
                    res.sample({"text": text}, limit=1)
        res.exhaustive_parts.append("multi-line with directives: all texts of <= %d lines over %r"
                                    % (spec["maxlines"], shapes))
    else:
        _random(res, spec)
    return res


def _random(res, spec):
    import hypothesis
    from hypothesis import HealthCheck, Phase, given, settings
    from hypothesis import strategies as st

    @hypothesis.seed(spec["seed"])
    @settings(max_examples=spec["n"], database=None, deadline=None, derandomize=False,
              phases=[Phase.generate], report_multiple_bugs=False,
              suppress_health_check=list(HealthCheck))
    @given(linegen.random_texts(st, with_directives=spec["directives"]))
    def run(text):
        modes = ("recording", "schemaless")
        want = expected_recording(text)
        res.count("random:" + want[0] + (":" + want[1] if want[0] == "unspec" else ""))
        res.evaluations += len(modes)
        if nontrivial_text(text):
            res.nontrivial(key=text)
        depth = 0
        maxd = 0
        for raw in model.physical_lines(text):
            s = model.strip_ws(raw)
            if s[:2] == "</":
                depth -= 1
            elif s[:1] == "<" and not s.endswith("/>"):
                depth += 1
                maxd = max(maxd, depth)
        res.count("random:depth>=3" if maxd >= 3 else "random:depth<3")
        for sig, d in check_text(text, modes):
            res.fail(sig, {"text": text, "modes": list(modes)}, d)
        if want[0] == "ok" and maxd >= 2:
            res.sample({"text": text}, limit=1)

    run()


def check_coverage(tier, counters):
    probs = []
    if counters.get("random:ok", 0) < 100:
        probs.append("only %d accepted random texts" % counters.get("random:ok", 0))
    if counters.get("random:reject", 0) < 100:
        probs.append("only %d rejected random texts" % counters.get("random:reject", 0))
    return probs


# --------------------------------------------------------------------------
# Atheris stage (python3-vt): the bytes are the text


def fuzz_decode(data):
    text = data.decode("utf-8", "replace")[:600]
    return [{"text": text, "modes": ["schemaless", "recording"]}]


def fuzz_seeds():
    seeds = ["<a>\nk v\n</a>\n", "<A n/>\n", "%import p\nk\n", "<a>\n<b x>\n</b>\n</a>\n", "# c\n\nk (v)\n",
             "%define n v\nk $n\n", "<a b c>\n", "</a>\n", "k v\n"]
    return [s.encode("utf-8") for s in seeds]
