"""C10 -- schema documents are accepted exactly when they obey the schema language rules.

Domain: (a) documents rendered from the generated schema family, decorated with
description / example / metadefault elements -- all must load; (b) for each static rule
R1..R14 one rule-violating edit at a random (quick) / every (thorough) applicable position of
the document, plus random pairs of edits -- all must raise ZConfig.SchemaError when the
schema is loaded.  Documents stay well-formed XML.
"""

import collections
import copy
import io
import os
import shutil
import tempfile
import xml.etree.ElementTree as ET

from zcv import gen, loadcheck, refload
from zcv.core import Result, failure

ID = "C10"
LEVEL = "exploration"
RULE = ("documents rendered from random schemas of the C01 family (rule-satisfying by "
        "construction, decorated with description/example/metadefault elements) and documents "
        "obtained from them by one rule-violating edit for each applicable rule R1..R14 "
        "(duplicate type / key / attribute incl. inherited and second wildcard; use before "
        "definition; extends/implements of the wrong kind; wildcard without attribute, '*' key; "
        "fixed-name multisection; default on required key; mis-keyed and colliding defaults; "
        "malformed names, attributes, required values, datatype names; missing mandatory "
        "attributes; forbidden nesting and unknown elements; stray text; wrong document "
        "element; repeated description/example), at a random applicable position (quick) or "
        "at every position (thorough), plus pairs of edits. Non-trivial = an edit applied inside "
        "a derived type or a section type (depth >= 1), or a valid document using >= 2 of "
        "{derived type, abstract type with implementer, wildcard with defaults}; distinct by "
        "document text.")
ASSUMPTIONS = [
    "each edit function encodes one rule of docs/writing-schema.rst / docs/schema.dtd as named in the statement; placements on which DTD and parser disagree (U4, U6, U17) and unimportable dotted datatype names are not generated",
    "only ZConfig.SchemaError (any subclass) counts as 'reported as a schema error'",
]

ITEM_TAGS = ("key", "multikey", "section", "multisection")


def parse(xml):
    return ET.fromstring(xml)


def render(root):
    return ET.tostring(root, encoding="unicode")


def containers(root):
    """[(element, model container name or None for the schema)]"""
    out = [(root, None)]
    for st in root.findall("sectiontype"):
        out.append((st, st.get("name").lower()))
    return out


def items_of(el):
    return [c for c in el if c.tag in ITEM_TAGS]


def case_variant(s):
    v = s.swapcase()
    return v if v != s else s


# Each edit generator yields (label, depth, apply) where apply(root) mutates the tree.


def edits(root, sm):
    conts = containers(root)
    sts = root.findall("sectiontype")
    abss = root.findall("abstracttype")
    out = []

    def add(rule, depth, fn):
        out.append((rule, depth, fn))

    def mk(tag, **attrs):
        e = ET.Element(tag)
        for k, v in attrs.items():
            e.set(k, v)
        return e

    # R1 duplicate type names
    for i, st in enumerate(sts):
        def f(root, i=i):
            s = root.findall("sectiontype")[i]
            root.insert(list(root).index(s) + 1, mk("sectiontype", name=case_variant(s.get("name"))))
        add("R1:duplicate-sectiontype", 0, f)

        # ... also when the repeated declaration is a DERIVED type (another concrete type as base)
        for j, st2 in enumerate(sts):
            if j != i and not (st.get("name") or "").lower() == (st2.get("name") or "").lower():
                def f(root, i=i, j=j):
                    all_ = root.findall("sectiontype")
                    later = all_[max(i, j)]
                    root.insert(list(root).index(later) + 1,
                                mk("sectiontype", name=case_variant(all_[i].get("name")), extends=all_[j].get("name")))
                add("R1:duplicate-name-on-a-derived-type", 0, f)
                break

        def f2(root, i=i):
            s = root.findall("sectiontype")[i]
            root.insert(list(root).index(s) + 1, mk("abstracttype", name=s.get("name")))
        add("R1:abstract-named-like-concrete", 0, f2)
    for i, a in enumerate(abss):
        def f(root, i=i):
            a = root.findall("abstracttype")[i]
            root.insert(list(root).index(a) + 1, mk("abstracttype", name=case_variant(a.get("name"))))
        add("R1:duplicate-abstracttype", 0, f)
    # R2 duplicate key / attribute in a container, inherited ones included
    for ci, (el, cname) in enumerate(conts):
        C = sm.top if cname is None else sm.types.get(cname)
        if C is None:
            continue
        depth = 0 if cname is None else 1
        own = set(id(x) for x in [])
        for it in C.items:
            inherited = cname is not None and not any(
                (c.get("name") or "").lower() == str(it.name).lower() or c.get("attribute") == it.attr
                for c in items_of(el))
            tag = "R2:inherited" if inherited else "R2:own"
            if not it.wild:
                nm = it.name if C.kt == "identifier" else case_variant(it.name)

                def f(root, ci=ci, nm=nm):
                    containers(root)[ci][0].append(mk("key", name=nm, attribute="zz_dup"))
                add(tag + "-duplicate-key-name", depth, f)

            def f(root, ci=ci, attr=it.attr):
                containers(root)[ci][0].append(mk("key", name="zzfresh", attribute=attr))
            add(tag + "-duplicate-attribute", depth, f)
            if it.wild and not it.is_section():
                def f(root, ci=ci):
                    containers(root)[ci][0].append(mk("key", name="+", attribute="zz_wild2"))
                add(tag + "-second-wildcard-key", depth, f)
    # R9 a key name that does not give an identifier as implied attribute
    for ci, (el, cname) in enumerate(conts):
        depth = 0 if cname is None else 1
        C = sm.top if cname is None else sm.types.get(cname)
        if C is not None and C.kt != "identifier":
            def f(root, ci=ci):
                containers(root)[ci][0].append(mk("key", name="zz.dotted"))
            add("R9:dotted-key-name-without-attribute", depth, f)

            def f(root, ci=ci):
                containers(root)[ci][0].append(mk("multikey", name="zz.dotted.m"))
            add("R9:dotted-multikey-name-without-attribute", depth, f)
    # R9 names with a non-ASCII letter or digit after the first character (appended, so that no
    # other rule is touched)
    for ci, (el, cname) in enumerate(conts):
        depth = 0 if cname is None else 1
        C = sm.top if cname is None else sm.types.get(cname)
        if C is not None and C.kt in ("basic-key", "identifier"):
            for tag, nm in (("key", "stra\u00dfe"), ("multikey", "caf\u00e9"), ("key", "kind\u00b2"),
                            ("key", "a\u0660"),
                            # the only non-ASCII characters that lower() / upper() turn into ASCII letters
                            ("key", "\u212aey"), ("multikey", "mar\u212a"), ("key", "d\u0131m"), ("key", "cla\u017f")):
                def f(root, ci=ci, tag=tag, nm=nm):
                    containers(root)[ci][0].append(mk(tag, name=nm, attribute="zz_na"))
                add("R9:non-ascii-in-%s-name" % tag, depth, f)
            if cname is None and sts:
                def f(root, ci=ci):
                    containers(root)[ci][0].append(mk("section", type=root.findall("sectiontype")[0].get("name"),
                                                      name="n\u00e4me", attribute="zz_ns"))
                add("R9:non-ascii-in-section-name", depth, f)

    def f(root):
        root.append(mk("sectiontype", name="caf\u00e9"))
    add("R9:non-ascii-in-type-name", 0, f)

    def f(root):
        root.append(mk("abstracttype", name="kind\u00b2"))
    add("R9:non-ascii-in-abstracttype-name", 0, f)

    def f(root):
        root.append(mk("sectiontype", name="\u212aind"))
    add("R9:non-ascii-in-type-name", 0, f)

    # R3: a type reference is the type's name up to letter case -- not up to case FOLDING
    for good, ref in (("strasse", "stra\u00dfe"), ("ss", "\u017fs"), ("fis", "\ufb01s")):       # (not the Kelvin sign, which lower() itself maps to 'k': zone U11)
        def f(root, good=good, ref=ref):
            root.append(mk("sectiontype", name=good))
            root.append(mk("multisection", type=ref, name="*", attribute="zz_fold"))
        add("R3:type-reference-equal-only-after-case-folding", 0, f)

    # R9: section names made of the wildcard characters are not wildcards
    if sts:
        for nm in ("*+", "+*", "**", "++", "*x", "+ "):
            def f(root, nm=nm):
                root.append(mk("section", type=root.findall("sectiontype")[0].get("name"), name=nm, attribute="zz_wild"))
            add("R9:section-name-made-of-wildcard-characters", 0, f)

    # R11: nothing structural inside the elements that hold text
    for holder in ("description", "example"):
        for inner in ("key", "sectiontype", "abstracttype", "multikey"):
            def f(root, holder=holder, inner=inner):
                d = mk(holder)
                d.text = "text "
                child = mk(inner, name="zzinner") if inner != "multikey" else mk(inner, name="zzinner", attribute="zzinner")
                child.tail = " more text"
                d.append(child)
                root.insert(0, d)
            add("R11:%s-inside-%s" % (inner, holder), 0, f)
    for i, st in enumerate(sts):
        def f(root, i=i):
            t = root.findall("sectiontype")[i]
            d = mk("description")
            d.text = "text "
            d.append(mk("key", name="zzinner"))
            t.insert(0, d)
        add("R11:key-inside-description-of-sectiontype", 1, f)

    def f(root):
        root.append(mk("abstracttype", name="lin\u212a"))
    add("R9:non-ascii-in-abstracttype-name", 0, f)
    # R3 use before definition
    for ci, (el, cname) in enumerate(conts):
        depth = 0 if cname is None else 1

        def f(root, ci=ci):
            containers(root)[ci][0].append(mk("section", type="t99undefined", name="*", attribute="zz_s"))
        add("R3:section-of-undefined-type", depth, f)
    for i, st in enumerate(sts):
        def f(root, i=i):
            root.findall("sectiontype")[i].set("extends", "t99undefined")
        add("R3:extends-undefined", 1, f)

        def f(root, i=i):
            root.findall("sectiontype")[i].set("implements", "abs99undefined")
        add("R3:implements-undefined", 1, f)
        if i + 1 < len(sts):
            def f(root, i=i):
                s = root.findall("sectiontype")
                s[i].append(mk("section", type=s[-1].get("name"), name="*", attribute="zz_later"))
            add("R3:section-of-later-type", 1, f)

            def f(root, i=i):
                s = root.findall("sectiontype")
                if "extends" in s[i].attrib:
                    s[i].set("extends", s[-1].get("name"))
                else:
                    s[i].set("extends", s[-1].get("name"))
                    for c in list(s[i]):
                        s[i].remove(c)
            add("R3:extends-later-type", 1, f)
    # R9 empty / blank / padded values of the name-carrying attributes of a section type
    for i, st in enumerate(sts):
        for attr in ("implements", "extends"):
            cur = st.get(attr)
            variants = ["", " "]
            if cur:
                variants += [" " + cur, cur + " ", cur + "\n"]
            for vi, val in enumerate(variants):
                def f(root, i=i, attr=attr, val=val):
                    root.findall("sectiontype")[i].set(attr, val)
                add("R9:%s-%s" % (attr, ["empty", "blank", "leading-blank", "trailing-blank", "trailing-newline"][vi]), 1, f)
    # R4 wrong kind
    if abss:
        for i, st in enumerate(sts):
            def f(root, i=i):
                s = root.findall("sectiontype")[i]
                s.set("extends", root.findall("abstracttype")[0].get("name"))
                for c in list(s):
                    s.remove(c)
            add("R4:extends-abstract", 1, f)
    for i, st in enumerate(sts):
        if i > 0:
            def f(root, i=i):
                s = root.findall("sectiontype")
                s[i].set("implements", s[0].get("name"))
            add("R4:implements-concrete", 1, f)
    # per item rules
    for ci, (el, cname) in enumerate(conts):
        depth = 0 if cname is None else 1
        for ii, it in enumerate(items_of(el)):
            def at(root, ci=ci, ii=ii):
                return items_of(containers(root)[ci][0])[ii]
            name = it.get("name")
            if name in ("*", "+"):
                def f(root, at=at):
                    at(root).attrib.pop("attribute", None)
                add("R5:wildcard-without-attribute", depth, f)
            if it.tag in ("key", "multikey"):
                def f(root, at=at):
                    e = at(root)
                    e.set("name", "*")
                    e.set("attribute", e.get("attribute") or "zz_star")
                    for c in list(e):
                        e.remove(c)
                    e.attrib.pop("default", None)
                add("R5:star-named-key", depth, f)
            if it.tag == "multisection":
                def f(root, at=at):
                    at(root).set("name", "fixedname")
                add("R6:multisection-fixed-name", depth, f)
            if it.tag in ("section", "multisection"):
                def f(root, at=at):
                    e = at(root)
                    e.set("name", "")
                    e.set("attribute", e.get("attribute") or "zz_empty")
                add("R9:empty-section-name", depth, f)
            if it.tag == "key" and name != "+":
                def f(root, at=at):
                    e = at(root)
                    e.set("required", "yes")
                    e.set("default", "1")
                add("R7:default-on-required-key", depth, f)

                def f(root, at=at):
                    e = at(root)
                    d = mk("default", key="kk")
                    d.text = "1"
                    e.append(d)
                    e.attrib.pop("default", None)
                add("R8:keyed-default-on-plain-key", depth, f)
            if it.tag == "multikey" and name != "+":
                def f(root, at=at):
                    e = at(root)
                    d = mk("default", key="kk")
                    d.text = "1"
                    e.append(d)
                add("R8:keyed-default-on-plain-multikey", depth, f)

                def f(root, at=at):
                    e = at(root)
                    d = mk("default", key="")
                    d.text = "1"
                    e.append(d)
                add("R8:default-with-empty-key-attribute-on-plain-multikey", depth, f)
            if it.tag == "multikey":
                def f(root, at=at):
                    at(root).set("default", "1")
                add("R8:default-attribute-on-multikey", depth, f)
            if it.tag in ("key", "multikey") and name == "+":
                def f(root, at=at):
                    e = at(root)
                    d = mk("default")
                    d.text = "1"
                    e.append(d)
                add("R8:unkeyed-default-on-wildcard", depth, f)

                def f(root, at=at):
                    at(root).append(mk("default"))          # no text at all
                add("R8:unkeyed-empty-default-on-wildcard", depth, f)
            if it.tag in ("key", "multikey") and name != "+":
                def f(root, at=at):
                    e = at(root)
                    e.append(mk("default", key="kk"))       # keyed, no text at all
                    e.attrib.pop("default", None)
                add("R8:keyed-empty-default-on-plain-%s" % it.tag, depth, f)
            if it.tag == "key" and name != "+":
                def f(root, at=at):
                    e = at(root)
                    e.append(mk("default"))
                    e.attrib.pop("default", None)
                    e.attrib.pop("required", None)
                add("R8:empty-default-element-on-plain-key", depth, f)
            if it.tag == "key" and name == "+":
                def f(root, at=at):
                    e = at(root)
                    e.attrib.pop("required", None)
                    e.set("default", "v")
                add("R8:default-attribute-on-wildcard-key", depth, f)

                def f(root, at=at):
                    e = at(root)
                    for c in list(e):
                        e.remove(c)
                    e.attrib.pop("datatype", None)
                    e.attrib.pop("required", None)
                    e.set("default", "v")
                add("R8:default-attribute-on-wildcard-key-without-elements", depth, f)

                def f(root, at=at):
                    e = at(root)
                    for c in list(e):
                        e.remove(c)
                    e.attrib.pop("datatype", None)
                    e.set("required", "yes")
                    e.set("default", "v")
                add("R7:default-attribute-on-required-wildcard-key", depth, f)
            if it.tag == "key" and name == "+":
                def f(root, at=at):
                    e = at(root)
                    for c in list(e):
                        e.remove(c)
                    e.attrib.pop("datatype", None)
                    e.attrib.pop("required", None)
                    for k in ("kcollide", "kcollide"):
                        d = mk("default", key=k)
                        d.text = "1"
                        e.append(d)
                add("R8:duplicate-default-key", depth, f)
                C = sm.top if cname is None else sm.types.get(cname)
                if C is not None and C.kt != "identifier":
                    def f(root, at=at):
                        e = at(root)
                        for c in list(e):
                            e.remove(c)
                        e.attrib.pop("datatype", None)
                        e.attrib.pop("required", None)
                        for k in ("kcollide", "KCollide"):
                            d = mk("default", key=k)
                            d.text = "1"
                            e.append(d)
                    add("R8:default-keys-collide-after-normalisation", depth, f)

                    def f(root, at=at):
                        e = at(root)
                        for c in list(e):
                            e.remove(c)
                        e.attrib.pop("datatype", None)
                        e.attrib.pop("required", None)
                        for k in ("KCollide", "kcollide"):
                            d = mk("default", key=k)
                            d.text = "1"
                            e.append(d)
                    add("R8:default-keys-collide-after-normalisation-variant-first", depth, f)
            # R9 malformed attributes
            if name not in ("*", "+"):
                def f(root, at=at):
                    at(root).set("name", "1 bad")
                add("R9:malformed-key-name", depth, f)
            def f(root, at=at):
                at(root).set("attribute", "1bad")
            add("R9:attribute-not-identifier", depth, f)

            def f(root, at=at):
                e = at(root)
                e.set("attribute", (e.get("attribute") or "attr") + "\n")
            add("R9:attribute-with-trailing-line-feed", depth, f)
            if name not in ("*", "+") and it.tag in ("key", "multikey"):
                def f(root, at=at):
                    e = at(root)
                    e.set("name", e.get("name") + "\n")
                add("R9:key-name-with-trailing-line-feed", depth, f)
            if it.get("handler"):
                def f(root, at=at):
                    e = at(root)
                    e.set("handler", e.get("handler") + "\n")
                add("R9:handler-with-trailing-line-feed", depth, f)

            def f(root, at=at):
                at(root).set("attribute", "a-b")
            add("R9:attribute-with-hyphen", depth, f)

            def f(root, at=at):
                at(root).set("attribute", "getSectionFoo")
            add("R9:attribute-reserved-prefix", depth, f)

            def f(root, at=at):
                e = at(root)
                e.set("required", "maybe")
                e.attrib.pop("default", None)
            add("R9:required-not-yes-no:%s" % it.tag, depth, f)

            def f(root, at=at):
                e = at(root)
                e.set("required", "Yes")
                e.attrib.pop("default", None)
            add("R9:required-wrong-case:%s" % it.tag, depth, f)
            if it.tag in ("key", "multikey"):
                def f(root, at=at):
                    at(root).set("datatype", "nosuchdatatype")
                add("R9:unknown-datatype", depth, f)

                def f(root, at=at):
                    at(root).set("datatype", "not a name")
                add("R9:malformed-datatype", depth, f)
            # R10
            if it.tag in ("section", "multisection"):
                def f(root, at=at):
                    at(root).attrib.pop("type", None)
                add("R10:section-without-type", depth, f)
            if it.tag in ("key", "multikey"):
                def f(root, at=at):
                    at(root).attrib.pop("name", None)
                add("R10:key-without-name", depth, f)
            # R11 nesting
            def f(root, at=at):
                at(root).append(mk("key", name="nested"))
            add("R11:key-inside-%s" % it.tag, depth + 1, f)
            if it.tag in ("section", "multisection"):
                def f(root, at=at):
                    d = mk("default")
                    d.text = "x"
                    at(root).append(d)
                add("R11:default-inside-section", depth + 1, f)
            # R12
            def f(root, at=at):
                e = at(root)
                e.text = (e.text or "") + " stray "
            add("R12:stray-text-in-%s" % it.tag, depth + 1, f)
            # R12: stray text after the end tag of a text-carrying child element
            for child in ("description", "example", "metadefault"):
                if child == "metadefault" and it.tag not in ("key", "multikey"):
                    continue

                def f(root, at=at, child=child):
                    e = at(root)
                    d = mk(child)
                    d.text = "text"
                    d.tail = " stray "
                    e.insert(0, d)
                add("R12:stray-text-after-%s-in-%s" % (child, it.tag), depth + 1, f)
            if it.tag in ("key", "multikey") and any(c.tag == "default" for c in it):
                def f(root, at=at):
                    e = at(root)
                    last = [c for c in e if c.tag == "default"][-1]
                    last.tail = " stray "
                add("R12:stray-text-after-default", depth + 1, f)
            # R14
            def f(root, at=at):
                e = at(root)
                for _ in range(2):
                    d = mk("description")
                    d.text = "text"
                    e.insert(0, d)
            add("R14:two-descriptions", depth + 1, f)

            def f(root, at=at):
                e = at(root)
                for _ in range(2):
                    d = mk("example")
                    d.text = "text"
                    e.insert(0, d)
            add("R14:two-examples", depth + 1, f)
    for i, st in enumerate(sts):
        def f(root, i=i):
            root.findall("sectiontype")[i].set("name", "1 bad")
        add("R9:malformed-type-name", 1, f)

        # a name that is well-formed but for one trailing line feed (written &#10; in the document)
        def f(root, i=i):
            t = root.findall("sectiontype")[i]
            t.set("name", t.get("name") + "\n")
        add("R9:type-name-with-trailing-line-feed", 1, f)

        for attr_ in ("extends", "implements"):
            if st.get(attr_):
                def f(root, i=i, attr_=attr_):
                    t = root.findall("sectiontype")[i]
                    t.set(attr_, t.get(attr_) + "\n")
                add("R9:%s-with-trailing-line-feed" % attr_, 1, f)

        def f(root, i=i):
            root.findall("sectiontype")[i].attrib.pop("name", None)
        add("R10:sectiontype-without-name", 1, f)

        def f(root, i=i):
            root.findall("sectiontype")[i].set("datatype", "nosuchdatatype")
        add("R9:unknown-section-datatype", 1, f)

        def f(root, i=i):
            root.findall("sectiontype")[i].set("keytype", "nosuchkeytype")
        add("R9:unknown-keytype", 1, f)

        def f(root, i=i):
            root.findall("sectiontype")[i].append(mk("sectiontype", name="inner"))
        add("R11:sectiontype-inside-sectiontype", 1, f)

        def f(root, i=i):
            root.findall("sectiontype")[i].append(mk("import", package="ZConfig.components.basic"))
        add("R11:import-inside-sectiontype", 1, f)

        def f(root, i=i):
            root.findall("sectiontype")[i].append(mk("abstracttype", name="innerabs"))
        add("R11:abstracttype-inside-sectiontype", 1, f)

        def f(root, i=i):
            e = root.findall("sectiontype")[i]
            e.text = (e.text or "") + "stray"
        add("R12:stray-text-in-sectiontype", 1, f)

        def f(root, i=i):
            e = root.findall("sectiontype")[i]
            for _ in range(2):
                d = mk("description")
                d.text = "t"
                e.insert(0, d)
        add("R14:two-descriptions-in-sectiontype", 1, f)
    for i, a in enumerate(abss):
        def f(root, i=i):
            root.findall("abstracttype")[i].attrib.pop("name", None)
        add("R10:abstracttype-without-name", 0, f)

        def f(root, i=i):
            root.findall("abstracttype")[i].append(mk("key", name="k"))
        add("R11:key-inside-abstracttype", 1, f)

        def f(root, i=i):
            root.findall("abstracttype")[i].append(mk("section", type="t1", name="*", attribute="zz"))
        add("R11:section-inside-abstracttype", 1, f)

    for label, attrs in (("neither-src-nor-package", {}), ("src-and-package", {"src": "x.xml", "package": "ZConfig.components.basic"}),
                         ("src-with-file", {"src": "x.xml", "file": "component.xml"}),
                         ("file-with-directory", {"package": "ZConfig.components.basic", "file": "sub/component.xml"}),
                         ("file-without-package", {"file": "component.xml"}),
                         ("empty-package", {"package": ""}), ("package-with-empty-part", {"package": "ZConfig..basic"})):
        def f(root, attrs=attrs):
            root.insert(0, mk("import", **attrs))
        add("R9:import-%s" % label, 0, f)

    # R9: a package name that begins with '.' is relative to the prefix -- and only that: a package
    # of that name at top level does not make it importable
    def f(root):
        if not root.get("prefix"):
            if ' datatype=".' in render(root) or ' keytype=".' in render(root):
                raise LookupError
            root.set("prefix", "zcvnosuchprefix")
        root.insert(0, mk("import", package=".ZConfig.components.basic"))
    add("R9:import-relative-package-that-exists-only-at-top-level", 0, f)

    for variant in ("wildcard-first", "wildcard-after-a-key", "wildcard-last-of-three", "through-a-middle-type"):
        for multi in (False,):        # a '+' multikey merges the values of colliding keys: no rule broken
            def f(root, variant=variant, multi=multi):
                b = mk("sectiontype", name="zzcollbase", keytype="identifier")
                w = mk("multikey" if multi else "key", name="+", attribute="zzmap")
                for k in ("kcollide", "KCollide"):
                    d = mk("default", key=k)
                    d.text = "1"
                    w.append(d)
                if variant == "wildcard-first":
                    b.append(w)
                    b.append(mk("key", name="zzafter"))
                elif variant == "wildcard-after-a-key":
                    b.append(mk("key", name="zzbefore"))
                    b.append(w)
                else:
                    b.append(mk("key", name="zzbefore"))
                    b.append(mk("multikey", name="zzbefore2"))
                    b.append(w)
                root.append(b)
                base = "zzcollbase"
                if variant == "through-a-middle-type":
                    root.append(mk("sectiontype", name="zzcollmid", extends="zzcollbase"))
                    base = "zzcollmid"
                root.append(mk("sectiontype", name="zzcollderived", extends=base, keytype="basic-key"))
            add("R8:derived-keytype-makes-default-keys-collide:%s:%s" % (variant, "multikey" if multi else "key"), 1, f)

    def f(root):
        root.append(mk("foo"))
    add("R11:unknown-element", 0, f)

    def f(root):
        root.append(mk("schema"))
    add("R11:schema-inside-schema", 0, f)

    def f(root):
        root.text = (root.text or "") + "stray text"
    add("R12:stray-text-in-schema", 0, f)

    def f(root):
        root.tail = None
        root.append(mk("key", name="tailed"))
        root[-1].tail = " stray after element "
    add("R12:stray-text-after-element", 0, f)

    def f(root):
        d = mk("description")
        d.text = "text"
        d.tail = " stray "
        root.insert(0, d)
    add("R12:stray-text-after-description-in-schema", 0, f)
    for i, st in enumerate(sts):
        def f(root, i=i):
            d = mk("description")
            d.text = "text"
            d.tail = " stray "
            root.findall("sectiontype")[i].insert(0, d)
        add("R12:stray-text-after-description-in-sectiontype", 1, f)

        def f(root, i=i):
            st = root.findall("sectiontype")[i]
            st.tail = " stray "
        add("R12:stray-text-after-sectiontype", 0, f)
    def f(root):
        root.tag = "component"
    add("R13:component-as-document", 0, f)

    def f(root):
        root.tag = "config"
    add("R13:unknown-document-element", 0, f)

    def f(root):
        for _ in range(2):
            d = mk("description")
            d.text = "t"
            root.insert(0, d)
    add("R14:two-descriptions-in-schema", 0, f)

    def f(root):
        root.set("keytype", "nosuchkeytype")
    add("R9:unknown-schema-keytype", 0, f)

    def f(root):
        root.set("prefix", "1bad.prefix")
    add("R9:malformed-prefix", 0, f)
    return out


def decorate(rng, root):
    """Add allowed description/example/metadefault elements (the document stays valid)."""
    for el in root.iter():
        if el.tag in ("key", "multikey", "section", "multisection", "sectiontype", "abstracttype", "schema"):
            if rng.random() < 0.2:
                d = ET.Element("description")
                d.text = " some text <with> markup-like characters "
                el.insert(0, d)
            if el.tag != "abstracttype" and rng.random() < 0.1:
                d = ET.Element("example")
                d.text = "example"
                el.insert(0, d)
            if el.tag in ("key", "multikey") and rng.random() < 0.1:
                d = ET.Element("metadefault")
                d.text = "computed"
                el.append(d)
    # an example / a description at both ends of an 'extends' chain (each type may have its own)
    by_name = {(st.get("name") or "").lower(): st for st in root.findall("sectiontype")}
    for st in root.findall("sectiontype"):
        base = by_name.get((st.get("extends") or "").lower())
        if base is not None and rng.random() < 0.3:
            for el in (st, base):
                for tag in ("example", "description"):
                    if el.find(tag) is None:
                        d = ET.Element(tag)
                        d.text = "%s of %s" % (tag, el.get("name"))
                        el.insert(0, d)


_SHARED = {}


def load(xml):
    """-> 'ok' | 'schema-error' | ('other', exception type name)"""
    ZConfig = loadcheck.zc()
    try:
        if "loader" not in _SHARED:
            import ZConfig.loader
            _SHARED["loader"] = ZConfig.loader.SchemaLoader()
        _SHARED["loader"].loadFile(io.StringIO(xml))
        return "ok"
    except ZConfig.SchemaError:
        return "schema-error"
    except Exception as e:  # noqa
        return ("other", type(e).__name__ + ": " + str(e)[:150])


TYPE_TAGS = ("sectiontype", "abstracttype")


PKG = "zcvc10pkg"


def split(root, mode):
    """The same definitions as several documents.  -> (schema element, second element, third or None)

    src      the type definitions move to a schema document imported by relative 'src'
    package  ... to the component.xml of a package
    cycle    ... to two component files of one package that import each other (the first half
             of the types in second.xml, which component.xml imports before defining the rest)
    extends  ... to a base schema with ANOTHER key type, which the schema 'extends' while
             stating its own key type"""
    schema = copy.deepcopy(root)
    comp = ET.Element("schema" if mode in ("src", "extends") else "component")
    if root.get("prefix") is not None:
        comp.set("prefix", root.get("prefix"))
    comp.text = root.text
    where = None
    for k, child in enumerate(list(schema)):
        if child.tag in TYPE_TAGS:
            if where is None:
                where = list(schema).index(child)
            schema.remove(child)
            comp.append(child)
    if where is None:
        return None
    comp2 = None
    if mode == "extends":
        own = schema.get("keytype") or "basic-key"
        schema.set("keytype", own)
        comp.set("keytype", "identifier" if own != "identifier" else "basic-key")
        schema.set("extends", "zcv-comp.xml")
        return schema, comp, None
    if mode == "cycle":
        kids = list(comp)
        comp2 = ET.Element("component")
        if root.get("prefix") is not None:
            comp2.set("prefix", root.get("prefix"))
        back = ET.Element("import", package=PKG)
        back.tail = "\n"
        comp2.append(back)
        for child in kids[:(len(kids) + 1) // 2]:
            comp.remove(child)
            comp2.append(child)
        fwd = ET.Element("import", package=PKG, file="second.xml")
        fwd.tail = "\n"
        comp.insert(0, fwd)
    imp = ET.Element("import", src="zcv-comp.xml") if mode == "src" else ET.Element("import", package=PKG)
    imp.tail = "\n"
    schema.insert(where, imp)
    return schema, comp, comp2


def component_edits():
    """Things a component document may not contain (docs/writing-schema.rst: a component holds
    type definitions only)."""
    out = []
    for tag, attrs in (("key", {"name": "topkey"}), ("multikey", {"name": "topmulti", "attribute": "topmulti"}),
                       ("section", {"name": "topsection", "type": None}), ("multisection", {"name": "*", "attribute": "topsections", "type": None})):
        def f(comp, tag=tag, attrs=attrs):
            a = dict(attrs)
            if "type" in a:
                sts = comp.findall("sectiontype")
                if not sts:
                    raise LookupError
                a["type"] = sts[0].get("name")
            comp.append(ET.Element(tag, **a))
        out.append(("R11:%s-at-top-of-component" % tag, f))

    def f(comp):
        comp.tag = "schema" if comp.tag == "component" else "component"
    out.append(("R13:schema-imported-as-component-or-component-as-schema", f))

    def f(comp):
        comp.tail = None
        comp.text = " stray "
    out.append(("R12:stray-text-in-component", f))
    return out


def _cleanup(d, pid):
    if os.getpid() == pid:
        shutil.rmtree(d, True)


def load_split(schema_xml, comp_xml, comp2_xml=None):
    ZConfig = loadcheck.zc()
    import ZConfig.loader
    d = _SHARED.get(("dir", os.getpid()))
    if d is None or not os.path.isdir(d):
        import sys
        if _SHARED.get("dir") in sys.path:
            sys.path.remove(_SHARED["dir"])        # a forked parent's directory
            sys.modules.pop(PKG, None)
        d = _SHARED["dir"] = _SHARED[("dir", os.getpid())] = tempfile.mkdtemp(prefix="zcv-c10-")
        import atexit
        atexit.register(_cleanup, d, os.getpid())
        os.mkdir(os.path.join(d, PKG))
        with open(os.path.join(d, PKG, "__init__.py"), "w") as f:
            f.write("")
        sys.path.insert(0, d)
    with open(os.path.join(d, "zcv-schema.xml"), "w", encoding="utf-8") as f:
        f.write(schema_xml)
    for target in (os.path.join(d, "zcv-comp.xml"), os.path.join(d, PKG, "component.xml")):
        with open(target, "w", encoding="utf-8") as f:
            f.write(comp_xml)
    second = os.path.join(d, PKG, "second.xml")
    if comp2_xml is not None:
        with open(second, "w", encoding="utf-8") as f:
            f.write(comp2_xml)
    elif os.path.exists(second):
        os.remove(second)
    try:
        ZConfig.loader.SchemaLoader().loadURL(os.path.join(d, "zcv-schema.xml"))
        return "ok"
    except ZConfig.SchemaError:
        return "schema-error"
    except Exception as e:  # noqa
        return ("other", type(e).__name__ + ": " + str(e)[:150])


class PlainNames:
    """The documented extension point: a registry whose search() also knows names of the
    application's own that are not dotted."""
    _cls = []

    @classmethod
    def make(cls):
        if not cls._cls:
            import ZConfig.datatypes

            class AppRegistry(ZConfig.datatypes.Registry):
                def search(self, name):
                    if name == "zcvplain":
                        return str
                    return ZConfig.datatypes.Registry.search(self, name)
            cls._cls.append(AppRegistry)
        return cls._cls[0]()


def load_with_registry(xml):
    ZConfig = loadcheck.zc()
    import ZConfig.loader
    try:
        ZConfig.loader.SchemaLoader(PlainNames.make()).loadFile(io.StringIO(xml))
        return "ok"
    except ZConfig.SchemaError:
        return "schema-error"
    except Exception as e:  # noqa
        return ("other", type(e).__name__ + ": " + str(e)[:150])


def check_doc(xml, expect_valid, label="", comp=None, comp2=None, registry=False):
    if registry:
        r = load_with_registry(xml)
    else:
        r = load(xml) if comp is None else load_split(xml, comp, comp2)
    if expect_valid:
        if r == "ok":
            return []
        return [("valid-document-rejected", "%r" % (r,))]
    if r == "schema-error":
        return []
    if r == "ok":
        return [("rule-violation-accepted:" + label, "")]
    return [("rule-violation-not-a-schema-error:" + label, r[1])]


def evaluate(case):
    if case.get("optimise"):
        from zcv import optprobe
        g = optprobe.verdicts([{"xml": case["xml"], "text": None}], "-O")[0]
        w = "schema-ok" if case.get("valid") else "schema-error"
        return [] if g == w else [failure("verdict-under-python-O:%s-instead-of-%s" % (g.split(":")[0], w), case, "")]
    fl = check_doc(case["xml"], case.get("valid", False), case.get("edit", ""), case.get("comp"), case.get("comp2"), case.get("registry", False))
    return [failure(sig, case, d) for sig, d in fl]


NO_SHRINK = True


def shards(tier, seed):
    n = 700 if tier == "thorough" else 300
    specs = [{"seed": seed, "lo": i * n, "hi": (i + 1) * n, "all": tier == "thorough"} for i in range(16)]
    specs.append({"seed": seed, "lo": 0, "hi": 120 if tier == "quick" else 1500, "optimise": True})
    return specs


def features(ast):
    n = 0
    if any(t.get("extends") for t in ast["types"]):
        n += 1
    if any(t.get("implements") for t in ast["types"]):
        n += 1
    if any(it["name"] == "+" and it.get("defaults") for c in [ast] + ast["types"] for it in c["items"]):
        n += 1
    return n


def run_optimised(spec, res):
    """The same verdicts from an interpreter started with -O (where assert statements do not
    exist): a sample of valid documents and of rule-violating edits."""
    from zcv import optprobe
    jobs, want = [], []
    for i in range(spec["lo"], spec["hi"]):
        rng = loadcheck.case_rng(spec["seed"] + 1010, i)
        ast = gen.gen_schema(rng, handlers=False)
        sm = refload.compile_schema(ast)
        root = parse(gen.render_schema(ast))
        jobs.append({"xml": render(root), "text": None})
        want.append("schema-ok")
        es = edits(root, sm)
        rng.shuffle(es)
        for label, depth, fn in es[:6]:
            r2 = copy.deepcopy(root)
            try:
                fn(r2)
            except Exception:  # noqa
                continue
            jobs.append({"xml": render(r2), "text": None, "edit": label})
            want.append("schema-error")
    got = optprobe.verdicts(jobs, "-O")
    for job, w, g in zip(jobs, want, got):
        res.evaluations += 1
        if g != w:
            res.fail("verdict-under-python-O:%s-instead-of-%s" % (g.split(":")[0], w), {"xml": job["xml"], "valid": w == "schema-ok", "optimise": True},
                     job.get("edit", "valid document"))
    res.exhaustive_parts = res.exhaustive_parts
    return res


def run_shard(spec):
    res = Result()
    counters = collections.Counter()
    if spec.get("optimise"):
        return run_optimised(spec, res)
    for i in range(spec["lo"], spec["hi"]):
        rng = loadcheck.case_rng(spec["seed"] + 1010, i)
        ast = gen.gen_schema(rng, handlers=rng.random() < 0.3)
        sm = refload.compile_schema(ast)
        root = parse(gen.render_schema(ast))
        decorate(rng, root)
        xml = render(root)
        res.evaluations += 1
        counters["valid-documents"] += 1
        if features(ast) >= 2:
            res.nontrivial(key=xml)
        fl = check_doc(xml, True)
        for sig, d in fl:
            res.fail(sig, {"xml": xml, "valid": True}, d)
        if fl:
            continue
        es = edits(root, sm)
        by_rule = collections.defaultdict(list)
        for e in es:
            by_rule[e[0]].append(e)
        chosen = []
        for rule in sorted(by_rule):
            if spec["all"]:
                chosen.extend(by_rule[rule])
            else:
                chosen.append(rng.choice(by_rule[rule]))
        for label, depth, fn in chosen:
            r2 = copy.deepcopy(root)
            try:
                fn(r2)
            except Exception as e:  # noqa
                counters["edit-not-applicable"] += 1
                continue
            x2 = render(r2)
            if x2 == xml:
                counters["edit-without-effect"] += 1
                continue
            res.evaluations += 1
            counters["rule:" + label.split(":")[0]] += 1
            counters["edit:" + label] += 1
            if depth >= 1:
                res.nontrivial(key=x2)
                if len(res.samples) < 1 and "inherited" in label:
                    res.sample({"edit": label, "xml": x2})
            for sig, d in check_doc(x2, False, label):
                res.fail(sig, {"xml": x2, "valid": False, "edit": label}, d)
        # the same definitions in several documents (see split())
        mode = ("src", "package", "cycle", "extends")[(i // 4) % 4]
        parts = split(root, mode) if i % 4 == 0 else None
        if parts is not None:
            rr = lambda el: None if el is None else render(el)      # noqa: E731
            sx, cx, c2x = rr(parts[0]), rr(parts[1]), rr(parts[2])
            res.evaluations += 1
            counters["valid-split-documents:" + mode] += 1
            fl2 = [(sig + ":types-in-%s" % mode, d) for sig, d in check_doc(sx, True, "", cx, c2x)]
            for sig, d in fl2:
                res.fail(sig, {"xml": sx, "comp": cx, "comp2": c2x, "valid": True}, d)
            if not fl2:
                for label, depth, fn in chosen:
                    r2 = copy.deepcopy(root)
                    try:
                        fn(r2)
                        p2 = split(r2, mode)
                    except Exception:  # noqa
                        continue
                    if p2 is None:
                        continue
                    s2x, c2, c22 = rr(p2[0]), rr(p2[1]), rr(p2[2])
                    if mode == "extends":
                        # the base is read first: "used before defined" between a type and a
                        # top-level section does not arise
                        if label.startswith("R3:section-of-later-type") or (s2x == sx and c2 == cx):
                            continue
                    elif s2x != sx or (c2 == cx and c22 == c2x):
                        # only edits whose whole effect lies in the type definitions
                        continue
                    res.evaluations += 1
                    counters["split-edit:" + label.split(":")[0]] += 1
                    res.nontrivial(key=s2x + c2 + (c22 or ""))
                    for sig, d in check_doc(s2x, False, label, c2, c22):
                        res.fail(sig + ":in-%s" % mode, {"xml": s2x, "comp": c2, "comp2": c22, "valid": False, "edit": label}, d)
                for label, fn in component_edits():
                    if mode in ("src", "extends") and not label.startswith("R13"):
                        # an imported or extended schema document may have items of its own
                        continue
                    c2 = copy.deepcopy(parts[1])
                    try:
                        fn(c2)
                    except LookupError:
                        continue
                    res.evaluations += 1
                    counters["component-edit:" + label] += 1
                    res.nontrivial(key=render(c2))
                    for sig, d in check_doc(sx, False, label, render(c2), c2x):
                        res.fail(sig, {"xml": sx, "comp": render(c2), "comp2": c2x, "valid": False, "edit": label}, d)
            if not fl2 and mode in ("src", "package"):
                # R1 across documents: a type name of the imported document is also defined by the
                # importing schema itself -- before or after the <import>, as written or in another
                # letter case, as a concrete or as an abstract type
                moved = [el for el in parts[1] if el.tag in TYPE_TAGS and el.get("name")]
                for el in moved[:2]:
                    for before in (True, False):
                        for tag in ("sectiontype", "abstracttype"):
                            s2 = copy.deepcopy(parts[0])
                            twin = ET.Element(tag, name=rng.choice([el.get("name"), case_variant(el.get("name"))]))
                            twin.tail = "\n"
                            at = [k for k, ch in enumerate(list(s2)) if ch.tag == "import"][0]
                            s2.insert(at if before else at + 1, twin)
                            label = "R1:type-name-of-imported-document-defined-%s-the-import" % ("before" if before else "after")
                            res.evaluations += 1
                            counters["split-edit:R1-across-documents"] += 1
                            res.nontrivial(key=render(s2) + cx)
                            for sig, d in check_doc(render(s2), False, label, cx, c2x):
                                res.fail(sig + ":in-%s" % mode, {"xml": render(s2), "comp": cx, "comp2": c2x, "valid": False, "edit": label}, d)
        # a registry of the application's own that resolves plain names through search()
        if i % 4 == 1 and 'datatype="string"' in xml:
            x3 = xml.replace('datatype="string"', 'datatype="zcvplain"')
            res.evaluations += 1
            counters["valid-documents:own-registry"] += 1
            for sig, d in check_doc(x3, True, "", registry=True):
                res.fail(sig + ":own-registry", {"xml": x3, "valid": True, "registry": True}, d)
            for label, depth, fn in chosen[:6]:
                r2 = copy.deepcopy(root)
                try:
                    fn(r2)
                except Exception:  # noqa
                    continue
                x4 = render(r2).replace('datatype="string"', 'datatype="zcvplain"')
                res.evaluations += 1
                for sig, d in check_doc(x4, False, label, registry=True):
                    res.fail(sig + ":own-registry", {"xml": x4, "valid": False, "edit": label, "registry": True}, d)
        # pairs of edits
        for _ in range(3):
            if len(es) < 2:
                break
            a, b = rng.sample(es, 2)
            r2 = copy.deepcopy(root)
            try:
                a[2](r2)
                b[2](r2)
                x2 = render(r2)
            except Exception:  # noqa
                continue
            res.evaluations += 1
            counters["pairs"] += 1
            for sig, d in check_doc(x2, False, "pair"):
                res.fail(sig, {"xml": x2, "valid": False, "edit": "%s + %s" % (a[0], b[0])}, d + " (%s + %s)" % (a[0], b[0]))
    res.counters.update(counters)
    return res


def check_coverage(tier, c):
    problems = []
    for r in ("R1", "R2", "R3", "R4", "R5", "R6", "R7", "R8", "R9", "R10", "R11", "R12", "R13", "R14"):
        if c.get("rule:" + r, 0) < 20:
            problems.append("rule %s exercised only %d times" % (r, c.get("rule:" + r, 0)))
    return problems
