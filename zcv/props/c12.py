"""C12 -- abstract slots accept exactly their implementers, including %import-ed ones.

Domain: application schemas with 1..3 abstract types and 0..4 concrete types implementing /
extending them in random combinations, 0..2 generated component packages that add
implementers of the application's abstract types, non-implementers and extenders of
implementers; texts that mix '%import' lines (good, repeated, missing, non-package,
component-less) with section headers of every known and unknown type in random order;
sequences of up to 4 loads against one schema object.
Oracle: zcv.refload (vocabulary and implementer tables per load, from the importing line on).
"""

import collections

from zcv import compose, digest, gen, loadcheck, refload
from zcv.core import Result, failure

ID = "C12"
LEVEL = "exploration"
RULE = ("random application schemas (1..3 abstract types, 0..4 concrete types implementing / "
        "extending them in random combinations, one '*' multisection per abstract type and "
        "some concrete slots), 0..2 generated component packages (implementers of the "
        "application's abstract types, non-implementers, extenders of implementers), sequences "
        "of 1..4 texts of 1..7 lines drawn from {%import good/repeated/missing/non-package/"
        "component-less package, <type [name]/> for every abstract, concrete, imported and "
        "unknown type} loaded against one schema object. Non-trivial = a text with >= 1 "
        "%import and >= 1 use of an imported type, or a slot offered an extender / "
        "non-implementer / abstract name; distinct by hash of (schema, packages, text sequence).")
ASSUMPTIONS = [
    "zcv/refload.py is the trusted reference for the vocabulary and implementer tables of one load",
    "headers claimed by more than one slot (zones U1/U2) follow the resolution rule of the pinned tree: first claiming child in declaration order",
    "whether the application schema's own description changes after %import is C13's business (known finding there)",
]
MAIN = "file:///zcv/main.conf"


def gen_case(rng, pkgbase):
    nabs = rng.randint(1, 3)
    abstract = ["abs%d" % (i + 1) for i in range(nabs)]
    types = []
    ncon = rng.randint(0, 4)

    def mktype(name, pool_types, implements_pool):
        t = {"name": name, "keytype": None, "datatype": rng.choice([None, None, "zcv.dt.wrap"]),
             "implements": None, "extends": None,
             "items": []}
        if pool_types and rng.random() < 0.4:
            t["extends"] = gen.mixcase(rng, rng.choice(pool_types))
        elif rng.random() < 0.2:
            pass        # a type without any key or section of its own: '<t/>' is all a text can say
        else:
            t["items"].append({"kind": "key", "name": "v", "attribute": None, "required": False,
                               "handler": None, "datatype": "string", "default": "d"})
        if rng.random() < 0.6:
            t["implements"] = gen.mixcase(rng, rng.choice(implements_pool))
        return t
    for i in range(ncon):
        types.append(mktype("c%d" % (i + 1), [t["name"] for t in types], abstract))
    items = []
    for i, a in enumerate(abstract):
        items.append({"kind": rng.choice(["multisection", "multisection", "section"]),
                      "name": rng.choice(["*", "*", "+"]), "attribute": "a%d" % (i + 1),
                      "required": rng.random() < 0.2, "handler": None, "type": gen.mixcase(rng, a)})
    if rng.random() < 0.35:
        # a specifically named slot of an abstract type
        items.insert(rng.randrange(len(items) + 1),
                     {"kind": "section", "name": "main", "attribute": "named_main", "required": False,
                      "handler": None, "type": gen.mixcase(rng, rng.choice(abstract))})
    for t in types:
        if rng.random() < 0.25:
            items.append({"kind": "multisection", "name": "*", "attribute": "s_" + t["name"],
                          "required": False, "handler": None, "type": t["name"]})
    ast = {"keytype": None, "datatype": None, "handler": None, "abstract": abstract, "types": types,
           "items": items}
    packages = {}
    known = [t["name"] for t in types]
    for p in range(rng.randint(0, 2)):
        pname = "%sp%d" % (pkgbase, p + 1)
        ptypes = []
        pabs = []
        if rng.random() < 0.3:
            pabs = ["pabs%d" % (p + 1)]
        for j in range(rng.randint(1, 3)):
            ptypes.append(mktype("p%dt%d" % (p + 1, j + 1), known + [t["name"] for t in ptypes], abstract + pabs))
        deps = []
        for t in ptypes:
            if t.get("extends"):
                for q, qa in packages.items():
                    if t["extends"].lower() in [x["name"] for x in qa["types"]] and q not in deps:
                        deps.append(q)
        packages[pname] = {"abstract": pabs, "types": ptypes, "imports": deps}
        if deps and rng.random() < 0.4:
            # components that import each other: the one imported first decides the reading order
            packages[deps[0]]["imports"] = list(packages[deps[0]]["imports"]) + [pname]
        known += [t["name"] for t in ptypes]
    clashing = set()
    if packages and types and rng.random() < 0.12:
        # a component that defines a type under a name the application schema already uses: its
        # import is refused, and the refused load must leave nothing behind
        pn = rng.choice(sorted(packages))
        victim = rng.choice(packages[pn]["types"])
        old, new = victim["name"], rng.choice(types)["name"]
        victim["name"] = new
        for pa in packages.values():
            for t in pa["types"]:
                if t.get("extends") and t["extends"].lower() == old.lower() and t is not victim:
                    t["extends"] = new
        clashing.add(pn)
        ast["_clashing_packages"] = sorted(clashing)
    if packages and rng.random() < 0.3:
        # the application schema itself imports one of the packages (then '%import' of it changes
        # nothing, and a later '%import' of another package is the first that extends the load)
        own = {}
        for pn, pa in packages.items():
            names = set(t["name"].lower() for t in pa["types"])
            if pn not in clashing and not pa.get("imports") and all((not t.get("extends")) or t["extends"].lower() in names for t in pa["types"]):
                own[pn] = pa
        if own:
            ast["imports"] = [rng.choice(sorted(own))]
            ast["imports_after_abstract"] = True
    elif packages and rng.random() < 0.3:
        # the application schema picks ONE extra component file of a package ('file=' attribute);
        # the package's default component still arrives only by '%import'
        pn = rng.choice(sorted(packages))
        ast["_extra_import"] = {"package": pn, "file": "extra.xml",
                                "type": {"name": "px1", "keytype": None, "datatype": None, "extends": None,
                                         "implements": gen.mixcase(rng, rng.choice(abstract)),
                                         "items": [{"kind": "key", "name": "v", "attribute": None, "required": False,
                                                    "handler": None, "datatype": "string", "default": "d"}]}}
    if not ast.get("imports") and not ast.get("_extra_import") and rng.random() < 0.3:
        # the abstract types, and a section type with a slot for one of them, come from a library
        # schema that the application schema imports by '<import src>'; implementers are declared
        # outside the library (by the application schema, by %import-ed components)
        box = {"name": "box", "keytype": None, "datatype": None, "implements": None, "extends": None,
               "items": [{"kind": "multisection", "name": "*", "attribute": "inner", "required": False,
                          "handler": None, "type": gen.mixcase(rng, rng.choice(abstract))}]}
        types.insert(0, box)
        items.append({"kind": "multisection", "name": "*", "attribute": "boxes", "required": False,
                      "handler": None, "type": "box"})
        ast["_library"] = ["box"]
    return ast, packages


def _has_key_v(tname, avail):
    by = {t["name"].lower(): t for t in avail}
    t = by.get(tname.lower())
    met = set()
    while t is not None and id(t) not in met:
        met.add(id(t))
        if any(it["name"] == "v" for it in t["items"]):
            return True
        t = by.get(t["extends"].lower()) if t.get("extends") else None
    return False


def gen_guided_text(rng, ast, packages):
    """Mostly conforming: import some packages, then use types that some slot admits."""
    chosen = [p for p in packages if rng.random() < 0.7]
    rng.shuffle(chosen)
    implementers = {}          # type name -> True when it implements some abstract type with a slot
    slots = {it["type"].lower(): it for it in ast["items"]}
    pool = []
    avail = list(ast["types"])
    seen = set()

    def deps(p):
        if p in seen:
            return
        seen.add(p)
        for d in packages[p].get("imports", []):
            deps(d)
        avail.extend(packages[p]["types"])
    for p in chosen:
        deps(p)
    for t in avail:
        impl = (t.get("implements") or "").lower()
        if impl in slots or t["name"].lower() in slots:
            pool.append((t["name"], slots.get(impl) or slots.get(t["name"].lower())))
    lines = []
    for p in chosen:
        if rng.random() < 0.25:
            lines.append("%%define lib%d %s" % (len(lines), p))
            lines.append("%%import $%s" % rng.choice(["lib%d" % (len(lines) - 1), "LIB%d" % (len(lines) - 1)]))
        elif rng.random() < 0.1 and p[-2:-1] == "p":
            lines.append("%%define ns %s" % p[:-1])
            lines.append("%%import ${ns}%s" % p[-1])
        else:
            lines.append("%%import %s" % p)
    named = [it for it in ast["items"] if it["name"] == "main"]
    if rng.random() < 0.3 and chosen:
        lines.append("%%import %s" % chosen[0])
    names = ["n1", "n2", "n3", "n4", "n5", "n6"]
    rng.shuffle(names)
    used_single = set()
    body = []
    for _ in range(rng.randint(1, 4)):
        if not pool:
            break
        t, slot = rng.choice(pool)
        if slot["kind"] == "section":
            if id(slot) in used_single and rng.random() < 0.9:
                continue
            used_single.add(id(slot))
        nm = names.pop() if (slot["name"] == "+" or rng.random() < 0.5) and names else None
        head = gen.mixcase(rng, t) + ((" " + nm) if nm else "")
        if rng.random() < 0.5 or not _has_key_v(t, avail):
            body.append(["<%s/>" % head])
        else:
            body.append(["<%s>" % head, "  v value", "</%s>" % t])
    if ast.get("_library") and avail:
        inner = ast["types"][0]["items"][0]["type"].lower()
        for _ in range(rng.randint(0, 2)):
            fit = [t for t in avail if (t.get("implements") or "").lower() == inner]
            t = rng.choice(fit) if fit and rng.random() < 0.8 else rng.choice(avail)
            if t["name"] != "box":
                body.append(["<box>", "  <%s/>" % gen.mixcase(rng, t["name"]), "</box>"])
    if named and avail and rng.random() < 0.7:
        t = rng.choice(avail)          # any available type, implementer of that abstract type or not
        body.append(["<%s main/>" % gen.mixcase(rng, t["name"])])
    # place the uses after the imports (mostly), sometimes in between or before
    r = rng.random()
    if r < 0.7 or not body:
        for b in body:
            lines.extend(b)
    elif r < 0.85:
        first = body.pop(0)
        lines = first + lines
        for b in body:
            lines.extend(b)
    else:
        k = rng.randrange(len(lines) + 1)
        flat = [l for b in body for l in b]
        lines = lines[:k] + flat + lines[k:]
    return "".join(l + "\n" for l in lines)


def gen_text(rng, ast, packages):
    if rng.random() < 0.55:
        return gen_guided_text(rng, ast, packages)
    alltypes = [t["name"] for t in ast["types"]]
    for p in packages.values():
        alltypes += [t["name"] for t in p["types"]]
    extra = list(ast["abstract"]) + ["nosuchtype"]
    for p in packages.values():
        extra += p["abstract"]
    imports = list(packages) + list(packages) + ["zcv_nosuch_pkg", "os", "xml", "zcv"]
    # names that are not package names although a package name is in them
    for p in list(packages)[:2]:
        imports += [p + ".", "." + p, p + "..", "." + p + ".", p.upper() if p.upper() != p else p + "x",
                    # the whole argument is the name: a good name followed by anything is another name
                    p + ".zcvmod", p + ".zcvmod", p + ".component", p + ".nosuchmod",
                    p + " nosuch", p + " component.xml", p + "\tx", p + " " + p, p + "  # main library"]
    lines = []
    names = ["n1", "n2", "n3", "n4", "n5", "n6", "n7"]
    rng.shuffle(names)
    for _ in range(rng.randint(1, 7)):
        r = rng.random()
        if r < 0.3 and packages:
            lines.append("%%import %s" % rng.choice(imports if rng.random() < 0.25 else list(packages)))
        elif r < 0.35:
            lines.append("%%import %s" % rng.choice(imports))
        else:
            t = rng.choice(alltypes + alltypes + extra) if alltypes else rng.choice(extra)
            nm = (" " + names.pop()) if names and rng.random() < 0.7 else ""
            if rng.random() < 0.5:
                lines.append("<%s%s/>" % (gen.mixcase(rng, t), nm))
            else:
                lines.append("<%s%s>" % (gen.mixcase(rng, t), nm))
                if t == "box" and rng.random() < 0.8:
                    lines.append("  <%s/>" % gen.mixcase(rng, rng.choice(alltypes + extra)))
                elif rng.random() < 0.5:
                    lines.append("  v x%d" % len(lines))
                lines.append("</%s>" % t)
    return "".join(l + "\n" for l in lines)


_LINK = {"n": 0}


def compare_sequence(ast, packages, texts, late=None):
    """-> list of (ref, [(sig, detail)]) per text; one schema object serves all loads.

    late = {"package": p, "at": k}: package p only becomes importable (its directory is added to
    sys.path) just before text k is loaded."""
    ZConfig = loadcheck.zc()
    comp = compose.Composed()
    comp.packages = {p: {"component.xml": gen.render_schema(a, root="component"),
                         # a plain module inside the package: not a package, whatever surrounds it
                         "zcvmod.py": "X = 1\n"} for p, a in packages.items()}
    extra = ast.get("_extra_import")
    if extra and extra["package"] in packages:
        import copy
        xml_ast = copy.deepcopy(ast)
        xml_ast["imports"] = [(extra["package"], extra["file"])]
        xml_ast["imports_after_abstract"] = True
        comp.main_xml = gen.render_schema(xml_ast)
        comp.packages[extra["package"]][extra["file"]] = gen.render_schema(
            {"abstract": [], "types": [extra["type"]], "imports": []}, root="component")
        # for the reference the extra type simply belongs to the schema
        ast = copy.deepcopy(ast)
        ast["types"] = [extra["type"]] + ast["types"]
        ast["abstract_first"] = True
    elif ast.get("_library"):
        import copy
        lib = [t for t in ast["types"] if t["name"] in ast["_library"]]
        xml_ast = copy.deepcopy(ast)
        xml_ast["abstract"] = []
        xml_ast["types"] = [t for t in xml_ast["types"] if t["name"] not in ast["_library"]]
        xml_ast["import_srcs"] = ["zcvlib.xml"]
        comp.main_xml = gen.render_schema(xml_ast)
        comp.files["main/zcvlib.xml"] = gen.render_schema({"abstract": ast["abstract"], "types": lib, "items": []})
    else:
        comp.main_xml = gen.render_schema(ast)
    _LINK["n"] += 1
    comp.link_packages = _LINK["n"] % 3 == 0       # package directories that are symbolic links
    if _LINK["n"] % 5 == 2 and not late and not comp.link_packages:
        tops = [p_ for p_ in sorted(comp.packages) if "." not in p_ and not any(q_.startswith(p_ + ".") for q_ in comp.packages)]
        comp.zipped = set(tops[:1])
    comp.fixed_root = _LINK["n"] % 2 == 0          # the same file names as the case before last, other contents
    use_registry = False
    if _LINK["n"] % 4 == 1:
        for p_ in comp.packages:
            for fn_ in comp.packages[p_]:
                new_ = comp.packages[p_][fn_].replace('datatype="string"', 'datatype="zcv-extra"')
                use_registry = use_registry or new_ != comp.packages[p_][fn_]
                comp.packages[p_][fn_] = new_
    results = []
    late_dir = None
    try:
        main = comp.materialise()
        try:
            if use_registry:
                # the application's own registry, extended by one name, given to the schema loader
                import ZConfig.datatypes
                import ZConfig.loader
                reg = ZConfig.datatypes.Registry()
                reg.register("zcv-extra", str)
                schema = ZConfig.loader.SchemaLoader(reg).loadURL(main)
            else:
                schema = ZConfig.loadSchema(main)
        except Exception as e:  # noqa
            return [(None, [("application-schema-rejected", repr(e))])]
        import ZConfig.loader
        shared = ZConfig.loader.ConfigLoader(schema)      # one loader object for the whole sequence
        late_dir = None
        if late:
            import importlib
            import os
            import sys
            late_dir = os.path.join(comp.root, "zcv-late")
            os.mkdir(late_dir)
            os.rename(os.path.join(comp.root, late["package"]), os.path.join(late_dir, late["package"]))
            importlib.invalidate_caches()
        for k_, text in enumerate(texts):
            visible = packages
            if late and k_ < late["at"]:
                visible = {p_: a_ for p_, a_ in packages.items() if p_ != late["package"]}
            elif late and late_dir not in sys.path:
                sys.path.append(late_dir)
                importlib.invalidate_caches()
            ref = refload.ref_load(ast, {MAIN: text}, MAIN, packages=visible, pin=True)
            got = loadcheck.real_load(schema, text, url=MAIN)
            again = loadcheck.real_load_with(shared, text, MAIN)
            fl = []
            hand = loadcheck.real_load_by_hand(schema, text, MAIN)
            if ref.kind != "unspec" and hand[0] != got[0]:
                fl.append(("parser-driven-by-hand-differs:%s-vs-%s" % (hand[0], got[0]),
                           repr(hand[1])[:200]))
            elif hand[0] == "ok" and got[0] == "ok" and digest.first_diff(digest.digest(got[1]), digest.digest(hand[1])):
                fl.append(("parser-driven-by-hand-differs:tree", ""))
            if ref.kind != "unspec" and again[0] != got[0] and "internal" not in (again[0], got[0]):
                fl.append(("reused-loader-differs:%s-vs-%s" % (again[0], got[0]),
                           "the same text through a loader object that served earlier loads of this sequence"))
            elif again[0] == "ok" and got[0] == "ok" and digest.first_diff(digest.digest(got[1]), digest.digest(again[1])):
                fl.append(("reused-loader-differs:tree", ""))
            if ref.kind == "unspec":
                pass
            elif got[0] == "internal":
                fl.append(("internal:%s:%s" % (type(got[1]).__name__, got[2]), repr(got[1])[:200]))
            elif ref.kind == "accept":
                if got[0] != "ok":
                    fl.append(("implementer-refused", "%s: %s" % (type(got[1]).__name__, str(got[1])[:200])))
                else:
                    d = digest.first_diff(ref.tree, digest.digest(got[1]))
                    if d:
                        fl.append(("wrong-tree", d))
            elif got[0] == "ok":
                fl.append(("accepted-but-rules-reject:%s" % ref.rule, repr(ref)))
            results.append((ref, fl))
    finally:
        if late and late_dir:
            import sys
            if late_dir in sys.path:
                sys.path.remove(late_dir)
        comp.cleanup()
    return results


def evaluate(case):
    pk = case["packages"]
    for p in pk:
        if not p or not p.replace("_", "a").isalnum() or not p[0].isalpha():
            return []
    try:
        refload.compile_schema(case["schema"])
        res = compare_sequence(case["schema"], pk, case["texts"], case.get("late"))
    except (KeyError, ValueError, AttributeError, TypeError):
        return []
    out = []
    for ref, fl in res:
        out.extend(failure(sig, case, d) for sig, d in fl)
    return out


NO_SHRINK = True


def shards(tier, seed):
    n = 8000 if tier == "thorough" else 800
    return [{"seed": seed, "lo": i * n, "hi": (i + 1) * n} for i in range(16)]


def run_shard(spec):
    res = Result()
    counters = collections.Counter()
    for i in range(spec["lo"], spec["hi"]):
        rng = loadcheck.case_rng(spec["seed"] + 1212, i)
        pkgbase = "zcvq%d_%d_" % (spec["seed"] % 1000, i % 5 if i % 2 else i)
        ast, packages = gen_case(rng, pkgbase)
        texts = [gen_text(rng, ast, packages) for _ in range(rng.randint(1, 4))]
        case = {"schema": ast, "packages": packages, "texts": texts}
        late = None
        independent = [p_ for p_ in sorted(packages) if "." not in p_
                       and not any(p_ in (a_.get("imports") or []) for a_ in packages.values())
                       and (ast.get("_extra_import") or {}).get("package") != p_
                       and p_ not in [x[0] if isinstance(x, (list, tuple)) else x for x in ast.get("imports") or []]]
        if independent and rng.random() < 0.2:
            # a package that only becomes importable in the course of the sequence
            pl = rng.choice(independent)
            texts = texts + ["%%import %s\n" % pl + gen_text(rng, ast, packages)]
            at = rng.randint(1, len(texts) - 1)
            texts.insert(at - 1, rng.choice(["%%import %s\n" % pl, texts[-1]]))
            late = {"package": pl, "at": at}
            case = {"schema": ast, "packages": packages, "texts": texts, "late": late}
            counters["sequence-with:package-importable-later"] += 1
        results = compare_sequence(ast, packages, texts, late)
        counters["packages:%d" % len(packages)] += 1
        nt = False
        for ref, fl in results:
            res.evaluations += 1
            if ref is not None:
                counters["verdict:" + ref.kind] += 1
                if ref.kind == "accept":
                    if ast.get("_library") and ref.stats["nested"] >= 1:
                        counters["accepted-implementer-inside-library-type"] += 1
                    if ref.stats.get("childless_sections"):
                        counters["accepted-childless-implementer"] += 1
                    if ref.stats["imported_types_used"]:
                        counters["accepted-with-imported-type"] += 1
                        nt = True
                elif ref.kind == "reject":
                    counters["rule:" + ref.rule] += 1
                    if ref.rule in ("no-slot", "abstract-type-named", "unknown-type"):
                        nt = True
                else:
                    counters["unspecified:" + ref.zone] += 1
            for sig, d in fl:
                res.fail(sig, case, d)
        if nt:
            res.nontrivial(key=[gen.render_schema(ast), sorted((p, repr(a)) for p, a in packages.items()), texts])
            if len(res.samples) < 1 and packages and len(texts) > 1:
                res.sample({"schema_xml": gen.render_schema(ast),
                            "packages": {p: gen.render_schema(a, root="component") for p, a in packages.items()},
                            "texts": texts})
    res.counters.update(counters)
    return res


def check_coverage(tier, c):
    problems = []
    for k in ("accepted-with-imported-type", "rule:no-slot", "rule:unknown-type", "rule:abstract-type-named",
              "rule:import-unknown-package", "rule:import-broken-component", "accepted-childless-implementer", "accepted-implementer-inside-library-type", "verdict:accept"):
        if c.get(k, 0) < 20:
            problems.append("class %s has only %d cases" % (k, c.get(k, 0)))
    return problems
