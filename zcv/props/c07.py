"""C07 -- user input can only produce configuration errors, never internal exceptions.

Domain: (1) texts of the C01 family mutated by 1..4 character-, token- and line-level
operations; (2) override lists from the C14 generator, mutated as strings; (3) include
graphs over three real files with self-, mutual and missing includes, included directories
and %import of good, missing and unsuitable packages; (4) the validator command on such
files.  Oracle: every load returns or raises a member of the ZConfig.ConfigurationError
family; an exception raised by a datatype function itself passes through unchanged; the
validator returns 0 or 1, 1 iff some file is rejected by a direct load, and prints one
message per rejected file.
"""

import collections
import contextlib
import io
import os
import shutil
import tempfile

from zcv import gen, loadcheck, refload
from zcv.core import Result, failure
from zcv.props import c14

ID = "C07"
LEVEL = "exploration"
RULE = ("(1) C01 texts with 1..4 mutations from {delete, duplicate, transpose a character; "
        "insert one of < > / % # ( ) $ { } space tab; delete, duplicate, swap tokens; delete, "
        "duplicate, swap lines}; (2) 1..4 override specifiers from the C14 generator with "
        "string mutations (drop '=', empty or non-key path components, unconvertible values at "
        "depth 0..3); (3) include graphs over 3 real files (self/mutual/missing/directory "
        "includes, %import of component, missing, non-package and component-less packages); "
        "(4) ZConfig.validator.main on 1..3 such files. Non-trivial = a mutated text that "
        "differs from its parent and is rejected, or an override / include scenario that "
        "reaches the matcher or the loader; distinct by hash of the case.")
ASSUMPTIONS = [
    "schemas use only datatypes that reject with ValueError (plus one pass-through scenario with a datatype raising its own exception type)",
    "exotic URL syntax in %include (U12) is not generated",
    "failures are bucketed by (exception type, innermost ZConfig function); each bucket is one finding",
]
MAIN = "file:///zcv/main.conf"
META = "<>/%#()${} \t"
UBLANKS = ["\u00a0", "\u3000", "\u2028", "\u0085", "\x1c", "\x1f", "\u2003", "\x0b", "\x0c"]
import re as _re
_GTOKEN = _re.compile(r"</|/>|<|>|%|\s+|[^\s<>%]+")


def mutate(rng, text, nops=None):
    nops = nops or rng.randint(1, 4)
    for _ in range(nops):
        level = rng.choice(["char", "char", "token", "line", "gtoken", "gtoken", "char", "char", "token", "line", "blank"])
        if level == "blank":
            # the blanks of the grammar are whatever the language calls white space: a blank is
            # exchanged for, or the whole rest of a line replaced by, one that is not ASCII
            lines = text.split("\n")
            cand = [k for k, l in enumerate(lines) if " " in l.strip()]
            if not cand:
                continue
            li = rng.choice(cand)
            l = lines[li]
            ub = rng.choice(UBLANKS)
            if rng.random() < 0.5:
                head = l.split(None, 1)[0]
                lines[li] = l[:l.index(head) + len(head)] + " " + ub * rng.randint(1, 2)
            else:
                pos = [k for k, ch in enumerate(l) if ch == " "]
                k = rng.choice(pos)
                lines[li] = l[:k] + ub + l[k + 1:]
            text = "\n".join(lines)
        elif level == "gtoken":
            # tokens of the line grammar: '<' '</' '/>' '>' '%' words and runs of blanks
            lines = text.split("\n")
            cand = [k for k, l in enumerate(lines) if l.strip()[:1] in ("<", "%")] or list(range(len(lines)))
            if not cand:
                continue
            li = rng.choice(cand)
            toks = [t for t in _GTOKEN.findall(lines[li]) if t != ""]
            solid = [k for k, t in enumerate(toks) if not t.isspace()]
            if not solid:
                continue
            ti = rng.choice(solid)
            op = rng.choice(["del", "del", "dup", "swap"])
            if op == "del":
                del toks[ti]
            elif op == "dup":
                toks.insert(ti, toks[ti])
            else:
                later = [k for k in solid if k > ti]
                if later:
                    toks[ti], toks[later[0]] = toks[later[0]], toks[ti]
            lines[li] = "".join(toks)
            text = "\n".join(lines)
        elif level == "char" and text:
            i = rng.randrange(len(text))
            op = rng.choice(["del", "dup", "swap", "ins", "ins"])
            if op == "del":
                text = text[:i] + text[i + 1:]
            elif op == "dup":
                text = text[:i] + text[i] + text[i:]
            elif op == "swap" and i + 1 < len(text):
                text = text[:i] + text[i + 1] + text[i] + text[i + 2:]
            else:
                text = text[:i] + rng.choice(META) + text[i:]
        elif level == "token":
            lines = text.split("\n")
            if not lines:
                continue
            li = rng.randrange(len(lines))
            toks = lines[li].split(" ")
            if not toks:
                continue
            ti = rng.randrange(len(toks))
            op = rng.choice(["del", "dup", "swap"])
            if op == "del":
                del toks[ti]
            elif op == "dup":
                toks.insert(ti, toks[ti])
            elif ti + 1 < len(toks):
                toks[ti], toks[ti + 1] = toks[ti + 1], toks[ti]
            lines[li] = " ".join(toks)
            text = "\n".join(lines)
        else:
            lines = text.split("\n")
            if not lines:
                continue
            li = rng.randrange(len(lines))
            op = rng.choice(["del", "dup", "swap"])
            if op == "del":
                del lines[li]
            elif op == "dup":
                lines.insert(li, lines[li])
            elif li + 1 < len(lines):
                lines[li], lines[li + 1] = lines[li + 1], lines[li]
            text = "\n".join(lines)
    return text


def mutate_spec(rng, s):
    op = rng.choice(["noeq", "dslash", "space", "digit", "badval", "keep", "keep", "meta", "lead", "trail"])
    if op == "noeq":
        return s.replace("=", "", 1)
    if op == "dslash":
        return s.replace("/", "//", 1) if "/" in s else "/" + s
    if op == "space":
        i = rng.randrange(len(s) + 1)
        return s[:i] + " " + s[i:]
    if op == "digit":
        return "1" + s
    if op == "badval":
        return s.split("=", 1)[0] + "=" + rng.choice(["abc", "65536", "-1", "$x", "${", "1 2"])
    if op == "meta":
        i = rng.randrange(len(s) + 1)
        return s[:i] + rng.choice(META + "=.:") + s[i:]
    if op == "lead":
        return "/" + s
    if op == "trail":
        return s + "/"
    return s


def classify_exception(e, zf, inner):
    """-> None if the exception is allowed to escape, else a signature."""
    from zcv import dt as zdt
    if isinstance(e, zdt.Boom):
        return None          # raised by a datatype function itself: passes through unchanged
    return "internal:%s:%s" % (type(e).__name__, zf)


def check_load(schema, text, overrides=()):
    got = loadcheck.real_load(schema, text, url=MAIN, overrides=overrides)
    if got[0] == "internal":
        sig = classify_exception(got[1], got[2], got[3])
        if sig:
            return got[0], [(sig, "%s: %s (overrides %r)" % (type(got[1]).__name__, str(got[1])[:200], list(overrides)))]
    return got[0], []


# ------------------------------------------------------------------ include graphs

GRAPH_LINES = ["%include a.conf", "%include b.conf", "%include c.conf", "%include missing.conf",
               "%include adir", "%include sub/../a.conf", "%include ./b.conf",
               "%import ZConfig.components.basic", "%import nosuchpackage", "%import os",
               "%import xml", "%import zcv.no.such", "%import", "%include",
               "%define x a.conf", "%include $x", "%include ${nope}",
               # a name that is defined, to nothing, used where a directive expects its words
               "%define zcvnone\n%define $zcvnone", "%define zcvnone\n%define $zcvnone v", "%define zcvnone\n%include $zcvnone",
               "%define zcvnone\n%import $zcvnone", "%define zcvnone\n$zcvnone v", "%define zcvnone\n<$zcvnone>"]
# include arguments in URL syntax that cannot be opened (no network is touched: unknown schemes,
# malformed authority, data: and package: forms)
GRAPH_URL_LINES = ["%include etc:local.conf", "%include mailto:x", "%include http:///x", "%include data:x",
                   "%include http://[::1", "%include //[x/y", "%include package:nosuchpkg:x",
                   "%include package:ZConfig", "%include package::x", "%include package:os:x",
                   "%include package:ZConfig:nosuch.xml", "%include file://nohost/x", "%include ftp://",
                   "%include a.conf#frag", "%include file:b.conf", "%include FILE:c.conf",
                   "%define u http://[", "%include $u",
                   "%include http://h:abc/x", "%include https://h:abc/x", "%include http://a b/x",
                   "%include http://user:pw@h/x",
                   "%include package:.rel:x", "%include package:..:x", "%include package:zcv.:x",
                   "%include package:ZConfig.components.basic:", "%include package:ZConfig.components.basic:nosuch.xml",
                   # names no file can have
                   "%include part%00.conf", "%include a\x00b.conf", "%include file:///tmp/%00", "%include " + "d/" * 3000 + "x.conf",
                   "%include http://[::1/x.conf", "%include http://\u2100/x",
                   "%include package:.ZConfig:component.xml", "%include package:.os:x", "%include package:..ZConfig:x",
                   "%include package:ZConfig.:x", "%include package: :x"]


def gen_graph(rng, sm):
    files = {}
    for name in ("a.conf", "b.conf", "c.conf"):
        body = gen.gen_text(rng, sm, rng.choice([0, 0, 1])).split("\n")
        body = [l for l in body if l][:rng.choice([0, 2, 6])]
        for _ in range(rng.choice([0, 1, 1, 2])):
            body.insert(rng.randrange(len(body) + 1),
                        rng.choice(GRAPH_URL_LINES) if rng.random() < 0.2 else rng.choice(GRAPH_LINES))
        files[name] = "".join(l + "\n" for l in body)
    if sm.types and rng.random() < 0.3:
        # a fragment that closes a section of its includer and opens another one in its place
        t = rng.choice(sorted(sm.types))
        x, y = rng.sample(sorted(files), 2)
        ls = files[x].split("\n")
        k = rng.randrange(len(ls))
        ls[k:k] = ["</%s>" % t, "<%s%s>" % (t, rng.choice(["", " other"]))]
        files[x] = "\n".join(ls)
        ls = files[y].split("\n")
        k = rng.randrange(len(ls))
        ls[k:k] = ["<%s%s>" % (t, rng.choice(["", " main"])), "%%include %s" % x, "</%s>" % t]
        files[y] = "\n".join(ls)
    return files


def check_graph(schema, files, main="a.conf", validator=False, schema_xml=None):
    """Write the files, load main by path; optionally run the validator on all files."""
    ZConfig = loadcheck.zc()
    out = []
    root = tempfile.mkdtemp(prefix="zcv-c07-")
    try:
        os.mkdir(os.path.join(root, "adir"))
        os.mkdir(os.path.join(root, "sub"))
        for name, text in files.items():
            with open(os.path.join(root, name), "w", encoding="utf-8") as f:
                f.write(text)
        got = loadcheck.real_load_url(schema, os.path.join(root, main))
        status = got[0]
        if got[0] == "internal":
            sig = classify_exception(got[1], got[2], got[3])
            if sig:
                out.append((sig, "%s: %s" % (type(got[1]).__name__, str(got[1])[:200])))
        # the same graph entered from a text that has no URL of its own (a file-like object
        # without a name): it can only include by absolute reference
        from urllib.request import pathname2url
        top = "%%include file://%s\n" % pathname2url(os.path.join(root, main))
        got2 = loadcheck.real_load(schema, top, url=None)
        if got2[0] == "internal":
            sig = classify_exception(got2[1], got2[2], got2[3])
            if sig:
                out.append((sig + ":top-without-url", "%s: %s" % (type(got2[1]).__name__, str(got2[1])[:200])))
        elif "internal" != got[0] and got2[0] != got[0]:
            out.append(("top-without-url-changes-verdict:%s-vs-%s" % (got2[0], got[0]), ""))
        # each file's text on its own, handed over as a file-like object without a name: whatever
        # its %include lines say, there is no URL to resolve them against
        for name in sorted(files):
            got3 = loadcheck.real_load(schema, files[name], url=None)
            if got3[0] == "internal":
                sig = classify_exception(got3[1], got3[2], got3[3])
                if sig:
                    out.append((sig + ":text-without-url", "%s: %s" % (type(got3[1]).__name__, str(got3[1])[:200])))
        if validator and schema_xml is not None:
            import ZConfig.validator
            spath = os.path.join(root, "schema.xml")
            with open(spath, "w", encoding="utf-8") as f:
                f.write(schema_xml)
            names = sorted(files)
            paths = [os.path.join(root, n) for n in names]
            expected_msgs = []
            internal = False
            vschema = ZConfig.loadSchema(spath)
            for pth in paths:
                with open(pth) as f:
                    try:
                        ZConfig.loadConfigFile(vschema, f)
                    except ZConfig.ConfigurationError as e:
                        try:
                            expected_msgs.append(str(e) + "\n")
                        except Exception as e2:  # noqa
                            out.append(("configuration-error-cannot-be-printed:%s" % type(e).__name__, repr(e2)))
                            internal = True
                    except Exception:  # noqa
                        internal = True
            if not internal:
                err = io.StringIO()
                try:
                    with contextlib.redirect_stderr(err), contextlib.redirect_stdout(io.StringIO()):
                        rc = ZConfig.validator.main(["-s", spath] + paths)
                except SystemExit as e:
                    out.append(("validator:SystemExit", repr(e.code)))
                    rc = None
                except Exception as e:  # noqa
                    out.append(("validator:raises:%s" % type(e).__name__, str(e)[:200]))
                    rc = None
                if rc is not None:
                    want = 1 if expected_msgs else 0
                    if rc not in (0, 1) or rc != want:
                        out.append(("validator:wrong-status", "returned %r, %d of %d files invalid"
                                    % (rc, len(expected_msgs), len(paths))))
                    elif err.getvalue() != "".join(expected_msgs):
                        out.append(("validator:wrong-messages", "stderr %r expected %r"
                                    % (err.getvalue()[:300], "".join(expected_msgs)[:300])))
                # files are named: the standard input plays no part, whatever state it is in
                import sys as _sys0
                for label_, fake in (("none", None), ("closed", "closed")):
                    old0 = _sys0.stdin
                    err0 = io.StringIO()
                    try:
                        if fake == "closed":
                            fh0 = io.StringIO("")
                            fh0.close()
                            _sys0.stdin = fh0
                        else:
                            _sys0.stdin = None
                        with contextlib.redirect_stderr(err0), contextlib.redirect_stdout(io.StringIO()):
                            rc0 = ZConfig.validator.main(["-s", spath] + paths)
                        if rc0 != (1 if expected_msgs else 0):
                            out.append(("validator:wrong-status", "stdin %s: returned %r" % (label_, rc0)))
                    except SystemExit as e:
                        out.append(("validator:SystemExit", "stdin %s: %r" % (label_, e.code)))
                    except Exception as e:  # noqa
                        out.append(("validator:raises:%s" % type(e).__name__, "stdin %s: %s" % (label_, str(e)[:200])))
                    finally:
                        _sys0.stdin = old0
                # no file argument and a terminal as standard input: only the schema is checked,
                # nothing is read
                class _Tty(io.StringIO):
                    reads = 0

                    def isatty(self):
                        return True

                    def read(self, *a):
                        _Tty.reads += 1
                        return io.StringIO.read(self, *a)

                    def readline(self, *a):
                        _Tty.reads += 1
                        return io.StringIO.readline(self, *a)
                old0 = _sys0.stdin
                try:
                    _sys0.stdin = _Tty("<no-such-section>\n")
                    with contextlib.redirect_stderr(io.StringIO()), contextlib.redirect_stdout(io.StringIO()):
                        rc0 = ZConfig.validator.main(["-s", spath])
                    if rc0 != 0 or _Tty.reads:
                        out.append(("validator:schema-only:wrong-status", "terminal as stdin, valid schema: returned %r, %d reads" % (rc0, _Tty.reads)))
                except SystemExit as e:
                    out.append(("validator:schema-only:SystemExit", repr(e.code)))
                except Exception as e:  # noqa
                    out.append(("validator:schema-only:raises:%s" % type(e).__name__, str(e)[:200]))
                finally:
                    _sys0.stdin = old0
                # no file argument: the one configuration is read from standard input (a pipe)
                import sys as _sys
                first = names[0]
                with open(paths[0], encoding="utf-8") as f:
                    piped = io.StringIO(f.read())
                try:
                    ZConfig.loadConfigFile(vschema, io.StringIO(piped.getvalue()))
                    want1 = 0
                except ZConfig.ConfigurationError:
                    want1 = 1
                except Exception:  # noqa
                    want1 = None
                # %include lines are relative to a resource without URL here: only self-contained texts
                if want1 is not None and "%include" not in piped.getvalue():
                    old_stdin = _sys.stdin
                    err = io.StringIO()
                    try:
                        _sys.stdin = piped
                        with contextlib.redirect_stderr(err), contextlib.redirect_stdout(io.StringIO()):
                            rc = ZConfig.validator.main(["-s", spath])
                        if rc != want1:
                            out.append(("validator:stdin:wrong-status", "returned %r expected %r for %s" % (rc, want1, first)))
                        elif (rc == 1) != bool(err.getvalue().strip()):
                            out.append(("validator:stdin:wrong-messages", repr(err.getvalue()[:200])))
                    except SystemExit as e:
                        out.append(("validator:stdin:SystemExit", repr(e.code)))
                    except Exception as e:  # noqa
                        out.append(("validator:stdin:raises:%s" % type(e).__name__, str(e)[:200]))
                    finally:
                        _sys.stdin = old_stdin
    finally:
        shutil.rmtree(root, ignore_errors=True)
    return status, out


BOOM_SCHEMA = {"keytype": None, "datatype": None, "handler": None, "abstract": [], "types": [
    {"name": "t1", "keytype": None, "datatype": None, "implements": None, "extends": None,
     "items": [{"kind": "key", "name": "b", "attribute": None, "required": False, "handler": None,
                "datatype": "zcv.dt.boom"}]}],
    "items": [{"kind": "multisection", "name": "*", "attribute": "s", "required": False,
               "handler": None, "type": "t1"},
              {"kind": "key", "name": "b", "attribute": None, "required": False, "handler": None,
               "datatype": "zcv.dt.boom"}]}


def stress_texts():
    return [
        "k " + "$$" * 3000 + "\n",
        "%define a v\nk " + "$a" * 2500 + "\n",
        "%define a v\nk " + "${A}-" * 2000 + "\n",
        "%define a " + "$$" * 2000 + "\nk $a\n",
        "k " + "$nope" * 1500 + "\n",
        "%import " + "$$" * 1500 + "\n",
        "%include " + "$$" * 1500 + "\n",
        "k " + "x" * 200000 + "\n",
        "".join("<t1>\n" for _ in range(1500)) + "".join("</t1>\n" for _ in range(1500)),
        "".join("<s%d>\n" % i for i in range(400)),
        "".join("k%d v\n" % i for i in range(20000)),
        "<" * 5000 + "\n",
        "<a " + "b" * 100000 + ">\n</a>\n",
        "(" * 10000 + "\n",
    ]


STRESS_SCHEMA = {"keytype": None, "datatype": None, "handler": None, "abstract": [], "types": [
    {"name": "t1", "keytype": None, "datatype": None, "implements": None, "extends": None,
     "items": [{"kind": "multisection", "name": "*", "attribute": "subs", "required": False,
                "handler": None, "type": "T1x"}]}],
    "items": [{"kind": "multisection", "name": "*", "attribute": "secs", "required": False,
               "handler": None, "type": "t1"},
              {"kind": "multikey", "name": "k", "attribute": None, "required": False, "handler": None,
               "datatype": "string"},
              {"kind": "key", "name": "+", "attribute": "rest", "required": False, "handler": None,
               "datatype": "string", "defaults": []}]}
STRESS_XML = """<schema>
  <sectiontype name="t1">
    <multisection type="t1" name="*" attribute="subs"/>
    <multikey name="k" attribute="k"/>
  </sectiontype>
  <multisection type="t1" name="*" attribute="secs"/>
  <multikey name="k" attribute="k"/>
  <key name="+" attribute="rest"/>
</schema>
"""


def check_stress():
    out = []
    schema = loadcheck.load_schema_xml(STRESS_XML)
    for i, text in enumerate(stress_texts()):
        got = loadcheck.real_load(schema, text, url=MAIN)
        if got[0] == "internal":
            sig = classify_exception(got[1], got[2], got[3])
            if sig:
                out.append((sig, "stress text #%d (%d characters): %s" % (i, len(text), str(got[1])[:120])))
    return out


def check_passthrough():
    from zcv import dt as zdt
    out = []
    schema, _ = loadcheck.load_schema(BOOM_SCHEMA)
    for text in ("b 1\n", "<t1>\nb 1\n</t1>\n", "<t1 x>\n b 2\n</t1>\n<t1/>\n"):
        got = loadcheck.real_load(schema, text)
        if got[0] != "internal" or not isinstance(got[1], zdt.Boom):
            out.append(("datatype-exception-not-passed-through", "%r -> %r" % (text, got[:2])))
    return out


def evaluate(case):
    kind = case.get("kind", "text")
    if kind == "passthrough":
        return [failure(s, case, d) for s, d in check_passthrough()]
    if kind == "stress":
        return [failure(s, case, d) for s, d in check_stress()]
    try:
        xml = gen.render_schema(case["schema"])
        if xml not in _XML_CACHE:
            if len(_XML_CACHE) > 32:
                _XML_CACHE.clear()
            _XML_CACHE[xml] = loadcheck.load_schema_xml(xml)
        schema = _XML_CACHE[xml]
    except Exception:
        return []
    if kind == "text":
        _, fl = check_load(schema, case["text"], case.get("overrides") or ())
    else:
        files = case["files"]
        if any("/" in n or n in ("adir", "sub", "schema.xml") or not n for n in files) or case.get("main", "a.conf") not in files:
            return []
        _, fl = check_graph(schema, files, case.get("main", "a.conf"), case.get("validator", False), xml)
    return [failure(sig, case, d) for sig, d in fl]


def shards(tier, seed):
    n = 9000 if tier == "thorough" else 900
    specs = [{"seed": seed, "lo": i * n, "hi": (i + 1) * n} for i in range(16)]
    specs.insert(0, {"atheris": True, "seed": seed, "runs": 6000 if tier == "quick" else 400000})
    return specs


_XML_CACHE = {}


def run_shard(spec):
    res = Result()
    counters = collections.Counter()
    if spec.get("atheris"):
        import sys
        from zcv import fuzzrun
        fuzzrun.run(res, sys.modules[__name__], ID, spec["runs"], spec["seed"], max_len=400, timeout=1500)
        return res
    if spec["lo"] == 0:
        res.evaluations += 1
        for sig, d in check_passthrough():
            res.fail(sig, {"kind": "passthrough"}, d)
        res.evaluations += len(stress_texts())
        for sig, d in check_stress():
            res.fail(sig, {"kind": "stress"}, d)
    for i in range(spec["lo"], spec["hi"]):
        rng = loadcheck.case_rng(spec["seed"] + 707, i)
        ast = gen.gen_schema(rng)
        sm = refload.compile_schema(ast)
        try:
            schema, xml = loadcheck.load_schema(ast)
        except Exception:  # noqa
            counters["schema-rejected"] += 1
            continue
        # (1) mutated texts
        for _t in range(2):
            base = gen.gen_text(rng, sm, rng.choice([0, 0, 1]))
            for _m in range(4):
                text = mutate(rng, base)
                res.evaluations += 1
                status, fl = check_load(schema, text)
                counters["mutant:" + status] += 1
                if text != base and status == "reject":
                    res.nontrivial(key=[xml, text])
                    if len(res.samples) < 1:
                        res.sample({"kind": "text", "schema_xml": xml, "parent": base, "mutant": text})
                for sig, d in fl:
                    res.fail(sig, {"kind": "text", "schema": ast, "text": text}, d)
            # (2) overrides
            if base.strip():
                ovs, _nt = c14.gen_overrides(rng, sm, base)
                specs = [mutate_spec(rng, c14.spec(p, v)) for p, v in ovs]
                res.evaluations += 1
                ZConfig = loadcheck.zc()
                status, fl = check_load(schema, base, specs)
                counters["overrides:" + status] += 1
                res.nontrivial(key=[xml, base, specs])
                for sig, d in fl:
                    res.fail(sig, {"kind": "text", "schema": ast, "text": base, "overrides": specs}, d)
        # (3)/(4) include graphs and the validator
        if i % 3 == 0:
            files = gen_graph(rng, sm)
            validator = i % 2 == 0
            res.evaluations += 1
            status, fl = check_graph(schema, files, "a.conf", validator, xml)
            counters["graph:" + status] += 1
            if validator:
                counters["validator-runs"] += 1
            res.nontrivial(key=[xml, sorted(files.items())])
            if len(res.samples) < 2 and status == "reject":
                res.sample({"kind": "graph", "files": files})
            for sig, d in fl:
                res.fail(sig, {"kind": "graph", "schema": ast, "files": files, "main": "a.conf",
                               "validator": validator}, d)
    res.counters.update(counters)
    return res


def check_coverage(tier, c):
    problems = []
    for k in ("mutant:reject", "mutant:ok", "overrides:reject", "graph:reject", "validator-runs"):
        if c.get(k, 0) < 30:
            problems.append("class %s has only %d cases" % (k, c.get(k, 0)))
    return problems


# ------------------------------------------------------------------ Atheris stage (python3-vt)

_POOL = []


def _pool():
    if not _POOL:
        for k in range(6):
            rng = loadcheck.case_rng(424242, k)
            ast = gen.gen_schema(rng)
            sm = refload.compile_schema(ast)
            _POOL.append((ast, sm))
    return _POOL


def fuzz_decode(data):
    """byte 0: schema of a fixed pool (low 3 bits) and whether byte 1.. also holds an override
    (bit 7); the rest is the configuration text."""
    if not data:
        return []
    pool = _pool()
    ast, _sm = pool[(data[0] & 7) % len(pool)]
    text = data[1:].decode("utf-8", "replace")
    case = {"kind": "text", "schema": ast, "text": text}
    if data[0] & 0x80 and "\n" in text:
        first, rest = text.split("\n", 1)
        case["text"] = rest
        case["overrides"] = [first]
    return [case]


def fuzz_seeds():
    out = []
    for k, (ast, sm) in enumerate(_pool()):
        rng = loadcheck.case_rng(434343, k)
        for f in (0, 0, 1):
            out.append(bytes([k]) + gen.gen_text(rng, sm, f).encode("utf-8"))
        out.append(bytes([k | 0x80]) + ("alpha=1\n" + gen.gen_text(rng, sm, 0)).encode("utf-8"))
    return out
