"""C05 -- %define names form one case-insensitive, define-before-use, write-once namespace.

Domain: sequences of steps {define NAME value, use reference, begin-include, end-include}
rendered into a main resource and nested included resources (in-memory, served by a
ConfigLoader subclass overriding the documented openResource).  Oracle: the reference reader
zcv.model.ref_read (one namespace, expansion at definition time, redefinition compared on the
expanded value).  Each case is loaded twice in a row against one schema object, then probed
with uses of every name without any definition (nothing may leak between loads).
"""

import io
import itertools
import os

from zcv import loadcheck  # noqa: F401  (defines the referenced names in os.environ)
from zcv import model
from zcv.core import Result, failure

ID = "C05"
LEVEL = "exploration"
RULE = ("sequences of steps over {define n v | use ref | [ begin include | ] end include}: every "
        "sequence of up to 3 (quick) / 4 (thorough) steps over the full alphabet (4 spellings of "
        "3 names x 8 values incl. '', '$other', '$$other', '${OTHER}x', padded; 8 illegal "
        "names incl. three with letters that only case-insensitive matching equates with ASCII; 7 references) and of up to 4/5 steps over a 12-symbol core alphabet, includes "
        "nested up to 2 levels; Hypothesis sequences up to 8 steps. Each sequence is loaded "
        "twice against one schema object and followed by a use-without-define probe. "
        "Non-trivial = the sequence re-defines a name, or a reference/definition crosses an "
        "include boundary, or a name is referenced or re-defined in a different letter case; "
        "distinct by rendered resources (enumerated sequences are rendered canonically and "
        "counted once per distinct rendering).")
ASSUMPTIONS = [
    "zcv/model.py ref_read/ref_subst is the trusted statement of the namespace rules",
    "which configuration error class is raised is compared only where the statement names it (redefinition and illegal name: ConfigurationSyntaxError); otherwise membership in the ConfigurationError family",
    "in-memory resources are served by overriding ConfigLoader.openResource; URL handling is C06/C18's business",
]

MAIN = "file:///zcv/main.conf"
SCHEMA = ('<schema><sectiontype name="s2"><multikey name="k" attribute="uses"/></sectiontype>'
          '<sectiontype name="s"><multikey name="k" attribute="uses"/><multisection name="*" type="s2" attribute="subs"/></sectiontype>'
          '<multikey name="k" attribute="uses"/><key name="o" default="d"/><multisection name="*" type="s" attribute="subs"/></schema>')

NAMES = ["a", "A", "b", "c"]
VALUES = ["v", "w", "", "$b", "$$b", "${B}x", "  p  q ", "$a", "p q"]
FULL = ([("d", n, v) for n in NAMES for v in VALUES] +
        [("d", "1x", "v"), ("d", "a-b", "v")] +
        # letters outside ASCII are not name characters -- not even the three that case-insensitive
        # matching equates with ASCII letters (long s, dotless i, Kelvin sign)
        [("d", "\u017f", "v"), ("d", "a\u212a", "v"), ("d", "b\u0131", "v")] +
        # illegal names made of characters that mean something to string formatting
        [("d", "%a", "v"), ("d", "a%(b)s", "v"), ("d", "{a}", "v")] +
        [("u", r) for r in ("$a", "${A}x", "$b", "$c", "$$a", "$a\u212a", "$b\u017f")] + [("[",), ("]",)])
CORE = [("d", "a", "v"), ("d", "a", "w"), ("d", "A", "v"), ("d", "a", "$b"), ("d", "a", "$$b"),
        ("d", "a", "p q"), ("d", "A", "p  q"),
        ("d", "b", "v"), ("d", "b", "w"), ("d", "a", ""), ("u", "$a"), ("u", "$B"),
        ("[",), ("]",)]


# few symbols, long sequences: a definition made two include levels down reaches the top; a
# resource included a second time ('R': include the most recently finished resource again)
DEEP = [("d", "a", "v"), ("d", "A", "w"), ("u", "$a"), ("[",), ("]",), ("R",)]


# definitions and uses inside and after sections (a definition is not local to the section it is
# written in), sections opened in one resource around an include
SECT = [("d", "a", "v"), ("d", "A", "w"), ("u", "$a"), ("[",), ("]",), ("<",), (">",)]


def render(steps, maxdepth=2):
    """steps -> resources dict or None when the bracket structure is not canonical."""
    texts = {MAIN: []}
    stack = [MAIN]
    n = 0
    last_closed = None
    opened, kinds = {}, {}
    for st in steps:
        if st[0] == "[":
            if len(stack) > maxdepth:
                return None
            n += 1
            name = "inc%d.conf" % n
            texts[stack[-1]].append("%%include %s" % name)
            url = "file:///zcv/" + name
            texts[url] = []
            stack.append(url)
        elif st[0] == "]":
            if len(stack) == 1:
                return None
            last_closed = stack.pop()
        elif st[0] == "R":
            if last_closed is None or last_closed in stack:
                return None
            texts[stack[-1]].append("%%include %s" % last_closed.rsplit("/", 1)[1])
        elif st[0] == "<":
            depth = sum(opened.get(u, 0) for u in stack)
            if depth >= 2:
                return None
            texts[stack[-1]].append("<s>" if depth == 0 else "<s2>")
            opened[stack[-1]] = opened.get(stack[-1], 0) + 1
            kinds.setdefault(stack[-1], []).append("s" if depth == 0 else "s2")
        elif st[0] == ">":
            if not opened.get(stack[-1]):
                return None
            opened[stack[-1]] -= 1
            texts[stack[-1]].append("</%s>" % kinds[stack[-1]].pop())
        elif st[0] == "d":
            texts[stack[-1]].append(("%%define %s %s" % (st[1], st[2])))
        else:
            texts[stack[-1]].append("k %s" % st[1])
    if len(stack) > 1 and steps and steps[-1][0] == "[":
        pass
    return {u: "".join(l + "\n" for l in ls) for u, ls in texts.items()}


_STATE = {}


def _zc():
    if "schema" not in _STATE:
        import ZConfig
        import ZConfig.loader

        class MemLoader(ZConfig.loader.ConfigLoader):
            resources = None

            def openResource(self, url):
                url = str(url)
                if url not in self.resources:
                    raise ZConfig.ConfigurationError("no such resource " + url, url)
                return self.createResource(io.StringIO(self.resources[url]), url)
        _STATE["ZConfig"] = ZConfig
        _STATE["MemLoader"] = MemLoader
        _STATE["schema"] = ZConfig.loadSchemaFile(io.StringIO(SCHEMA))
    return _STATE["ZConfig"], _STATE["MemLoader"], _STATE["schema"]


def flatten(cfg):
    """The values of all 'k' lines: in reading order for a text without sections, sorted otherwise."""
    if not cfg.subs:
        return list(cfg.uses)
    vals = list(cfg.uses)
    for s1 in cfg.subs:
        vals.extend(s1.uses)
        for s2 in s1.subs:
            vals.extend(s2.uses)
    return sorted(vals)


def load_by_hand(resources):
    """The documented building blocks used directly: a parser object driven by hand with the
    caller's own table of definitions.  -> (outcome, table)"""
    ZConfig, MemLoader, sch = _zc()
    import ZConfig.cfgparser
    loader = MemLoader(sch)
    loader.resources = resources
    table = {}
    try:
        r = loader.openResource(MAIN)
        try:
            sm = loader.createSchemaMatcher()
            ZConfig.cfgparser.ZConfigParser(r, loader, table).parse(sm)
            cfg = sm.finish()
        finally:
            r.close()
        return ("ok", flatten(cfg)), table
    except ZConfig.ConfigurationSyntaxError as e:
        return ("reject", "syntax", type(e).__name__), table
    except ZConfig.ConfigurationError as e:
        return ("reject", "other", type(e).__name__), table
    except RecursionError:
        return ("internal", "RecursionError"), table
    except Exception as e:  # noqa
        return ("internal", type(e).__name__ + ":" + str(e)[:80]), table


def load(resources, schema=None, loader=None):
    ZConfig, MemLoader, sch = _zc()
    if loader is None:
        loader = MemLoader(schema or sch)
    loader.resources = resources
    try:
        cfg, _ = loader.loadURL(MAIN)
        return ("ok", flatten(cfg))
    except ZConfig.ConfigurationSyntaxError as e:
        return ("reject", "syntax", type(e).__name__)
    except ZConfig.ConfigurationError as e:
        return ("reject", "other", type(e).__name__)
    except RecursionError:
        return ("internal", "RecursionError")
    except Exception as e:  # noqa
        return ("internal", type(e).__name__ + ":" + str(e)[:80])


def load_extended(resources):
    ZConfig, MemLoader, sch = _zc()
    if "MemExt" not in _STATE:
        from ZConfig import cmdline

        class MemExt(cmdline.ExtendedConfigLoader):
            resources = None

            def openResource(self, url):
                url = str(url)
                if url not in self.resources:
                    raise ZConfig.ConfigurationError("no such resource " + url, url)
                return self.createResource(io.StringIO(self.resources[url]), url)
        _STATE["MemExt"] = MemExt
    loader = _STATE["MemExt"](sch)
    loader.addOption("o=zcv")
    return load(resources, loader=loader)


def reference(resources, defs=None):
    defs = {} if defs is None else defs
    try:
        events, defs = model.ref_read(resources, MAIN, env=dict(os.environ), defs=defs)
    except model.Reject as e:
        return ("reject", e.kind)
    except model.Unspecified as e:
        return ("unspec", e.zone)
    except KeyError:
        return ("unspec", "outside-domain")
    sections = False
    for ev in events:
        if ev[0] == "open" and ev[1].lower() in ("s", "s2") and not ev[2]:
            sections = True
        elif ev[0] == "close":
            pass
        elif ev[0] in ("open", "import") or (ev[0] == "key" and ev[1].lower() != "k"):
            return ("unspec", "outside-domain")
    vals = [ev[2] for ev in events if ev[0] == "key"]
    return ("ok", sorted(vals) if sections else vals)


PROBE = {MAIN: "k $a\n"}, {MAIN: "k $b\n"}, {MAIN: "k ${c}\n"}


def _other_values(resources):
    out = {}
    for u, text in resources.items():
        lines = []
        for l in text.split("\n"):
            w = l.split(None, 2)
            if len(w) >= 2 and w[0] == "%define":
                l = l.rstrip() + ("Z" if len(w) == 3 else " Z")
            lines.append(l)
        out[u] = "\n".join(lines)
    return out


def check(resources):
    """-> (reference outcome, [(sig, detail)])"""
    ref_table = {}
    ref = reference(resources, ref_table)
    out = []
    # one loader object serves the whole history: load, the same load again, then the probes
    ZConfig, MemLoader, sch = _zc()
    shared = MemLoader(sch)
    # ... which has served another text before: the same lines with every defined value changed
    load(_other_values(resources), loader=shared)
    got1 = load(resources, loader=shared)
    import warnings
    with warnings.catch_warnings():
        warnings.simplefilter("error")          # a load has nothing to warn about
        got2 = load(resources, loader=shared)
    if got1 != got2:
        out.append(("second-load-differs", "%r then %r (same loader object)" % (got1, got2)))
    for p in PROBE:
        g = load(p, loader=shared)
        if g[0] != "reject":
            out.append(("definition-leaks-into-next-load", "probe %r -> %r (same loader object)" % (p[MAIN], g)))
    # the same load through the extended (command-line) loader carrying an unrelated option
    got4 = load_extended(resources)
    if got4 != got1:
        out.append(("extended-loader-differs", "%r with an unrelated override, %r without" % (got4, got1)))
    # the parser driven by hand with the caller's own table: same outcome, and the table holds
    # exactly the definitions read (a refused re-definition leaves the first value in place)
    got5, table = load_by_hand(resources)
    if got5[:2] != got1[:2]:
        out.append(("hand-driven-parser-differs", "%r by hand, %r through loadURL" % (got5, got1)))
    elif ref[0] != "unspec" and got1[0] != "internal" and (ref[0] == "ok") == (got1[0] == "ok") and table != ref_table:
        out.append(("table-of-definitions-after-the-load", "%r, expected %r (%s)" % (table, ref_table, ref)))
    # and the entry-point way: a new loader per load, same schema object
    got3 = load(resources)
    if got3 != got1:
        out.append(("second-load-differs", "%r then %r (new loader, same schema)" % (got1, got3)))
    g = load(PROBE[0])
    if g[0] != "reject":
        out.append(("definition-leaks-into-next-load", "probe %r -> %r (new loader)" % (PROBE[0][MAIN], g)))
    if ref[0] == "unspec":
        if got1[0] == "internal":
            out.append(("internal:" + got1[1].split(":")[0], repr(got1)))
        return ref, out
    if got1[0] == "internal":
        out.append(("internal:" + got1[1].split(":")[0], repr(got1)))
    elif ref[0] == "ok":
        if got1[0] != "ok":
            out.append(("rejected-but-namespace-rules-accept", "%r ; expected values %r" % (got1, ref[1])))
        elif got1[1] != ref[1]:
            out.append(("wrong-values", "got %r expected %r" % (got1[1], ref[1])))
    else:
        if got1[0] == "ok":
            out.append(("accepted-but-rules-reject:" + ref[1], "values %r" % (got1[1],)))
        elif ref[1] in ("define-redefine", "define-name") and got1[1] != "syntax":
            out.append(("not-a-syntax-error:" + ref[1], repr(got1)))
    return ref, out


def evaluate(case):
    return [failure(sig, case, d) for sig, d in check(case["resources"])[1]]


def nontrivial(steps):
    seen = {}
    depth_of = {}
    depth = 0
    sect, in_section, closed_sections = 0, set(), False
    for st in steps:
        if st[0] == "R":
            return True
        if st[0] == "[":
            depth += 1
        elif st[0] == "]":
            depth = max(0, depth - 1)
        elif st[0] == "<":
            sect += 1
        elif st[0] == ">":
            # a definition made inside a section that has been closed since
            sect = max(0, sect - 1)
            closed_sections = True
        elif st[0] == "d":
            if sect:
                in_section.add(st[1].lower())
            n = st[1].lower()
            if n in seen:
                return True
            seen[n] = st[1]
            depth_of[n] = depth
            for ref in ("a", "b", "c"):
                if ("$" + ref) in st[2].lower().replace("$$", "") or ("${" + ref) in st[2].lower():
                    if ref in seen and (seen[ref] != ref or depth_of.get(ref) != depth):
                        return True
        else:
            r = st[1].replace("$$", "").strip("${}x")
            n = r.lower()
            if n in in_section and closed_sections:
                return True
            if n in seen and (seen[n] != r or depth_of.get(n) != depth):
                return True
    return False


# ------------------------------------------------------------------ shards


def shards(tier, seed):
    thorough = tier == "thorough"
    specs = []
    full_len = 4 if thorough else 3
    core_len = 6 if thorough else 5
    for i, first in enumerate(FULL):
        specs.append({"kind": "enum", "alpha": "FULL", "len": full_len, "first": i})
    for i, first in enumerate(CORE):
        specs.append({"kind": "enum", "alpha": "CORE", "len": core_len, "first": i})
    for i, first in enumerate(DEEP):
        specs.append({"kind": "enum", "alpha": "DEEP", "len": 8 if thorough else 7, "first": i})
    for i, first in enumerate(SECT):
        specs.append({"kind": "enum", "alpha": "SECT", "len": 7 if thorough else 6, "first": i})
    for i in range(16):
        specs.append({"kind": "random", "seed": seed * 1000 + i,
                      "examples": 3000 if thorough else 300})
    return specs


def _run_case(res, steps, resources, by_hash):
    res.evaluations += 1
    ref, fl = check(resources)
    res.count("reference:" + ref[0] + (":" + ref[1] if ref[0] == "reject" else ""))
    if nontrivial(steps):
        if by_hash:
            res.nontrivial(key=sorted(resources.items()))
        else:
            res.nontrivial()
        res.count("nontrivial")
        if len(res.samples) < 1 and len(resources) > 1:
            res.sample({"resources": resources, "reference": repr(ref)})
    for sig, d in fl:
        res.fail(sig, {"resources": resources}, d)


def run_shard(spec):
    res = Result()
    if spec["kind"] == "enum":
        alpha = {"FULL": FULL, "CORE": CORE, "DEEP": DEEP, "SECT": SECT}[spec["alpha"]]
        first = alpha[spec["first"]]
        seen = set()
        for n in range(0, spec["len"]):
            for tail in itertools.product(alpha, repeat=n):
                steps = (first,) + tail
                # canonical bracket use only: no ']' at depth 0, no trailing '[' , no '[]'
                if steps[-1][0] == "[":
                    continue
                bad = False
                for x, y in zip(steps, steps[1:]):
                    if x[0] == "[" and y[0] == "]":
                        bad = True
                        break
                if bad:
                    continue
                resources = render(steps)
                if resources is None:
                    continue
                key = tuple(sorted(resources.items()))
                if key in seen:
                    continue
                seen.add(key)
                _run_case(res, steps, resources, by_hash=False)
        if spec["first"] == 0:
            res.exhaustive_parts.append("all step sequences of length <= %d over the %s alphabet (%d symbols)"
                                        % (spec["len"], spec["alpha"], len(alpha)))
        return res
    import hypothesis
    from hypothesis import HealthCheck, Phase, given, settings, strategies as st
    names = st.sampled_from(["a", "A", "b", "B", "c", "C", "_x", "a1", "1x", "a-b", "é"])
    values = st.one_of(st.sampled_from(VALUES + ["$c", "${a}${b}", "$", "${a", "$(HOME)", "x$$", "$A$B", "#x", "<y>"]),
                       st.text(alphabet="ab $${}x", max_size=8))
    refs = st.one_of(st.sampled_from(["$a", "${A}x", "$b", "$B", "$c", "$$a", "${c}", "$a$b", "x"]),
                     st.text(alphabet="abc$${}x ", min_size=1, max_size=8).filter(lambda s: s.strip() == s and s[:1] not in "#<%"))
    step = st.one_of(st.tuples(st.just("d"), names, values), st.tuples(st.just("u"), refs),
                     st.just(("[",)), st.just(("]",)), st.just(("R",)))

    @hypothesis.seed(spec["seed"])
    @settings(max_examples=spec["examples"], deadline=None, database=None,
              phases=(Phase.generate,), report_multiple_bugs=False,
              suppress_health_check=[HealthCheck.too_slow, HealthCheck.data_too_large, HealthCheck.filter_too_much])
    @given(st.lists(step, min_size=1, max_size=8))
    def run(steps):
        steps = [s for s in steps]
        # drop ']' at depth 0 rather than rejecting the example
        depth = 0
        clean = []
        for s in steps:
            if s[0] == "[":
                if depth >= 2:
                    continue
                depth += 1
            elif s[0] == "]":
                if depth == 0:
                    continue
                depth -= 1
            clean.append(s)
        resources = render(clean)
        if resources is None:
            return
        _run_case(res, clean, resources, by_hash=True)
    run()
    return res


def check_coverage(tier, counters):
    problems = []
    for k in ("reference:ok", "reference:reject:define-redefine", "reference:reject:subst-missing",
              "reference:reject:define-name", "nontrivial"):
        if counters.get(k, 0) < 20:
            problems.append("class %s has only %d cases" % (k, counters.get(k, 0)))
    return problems
