"""C17 -- schema-less configurations survive serialisation and re-reading unchanged.

Oracle: round trip.  a = load(t); s = str(a); b = load(s)  =>  b == a structurally and
str(b) == s.  '%define' / '%include' must raise, never be dropped silently.
Domain: the C03 corpus (exhaustive token lines, exhaustive multi-line shapes, random texts)
restricted to texts the schema-less loader accepts.
"""

import io
import itertools

from zcv import linegen, model
from zcv.core import Result, failure

ID = "C17"
LEVEL = "exploration"
RULE = ("the C03 corpus -- every sequence of up to 4 (quick) / 5 (thorough) tokens over the "
        "16-token alphabet as the only line and inside <a>..</a>, every text of up to 4 lines "
        "over 14 complete-line shapes plus value-shape lines, Hypothesis texts (<= 40 lines, "
        "depth <= 6) -- restricted to texts the schema-less loader accepts. Non-trivial = "
        "accepted text with >= 1 section, or a value containing '$', or a value starting with "
        "a grammar character, or an empty value, or an import; distinct by text (enumerated "
        "texts are distinct by construction, random ones by hash).")
ASSUMPTIONS = [
    "equality of structures is judged on keys, value lists in order, section type/name/order/nesting and imports, read through the public dict/attribute interface of schemaless.Section",
    "texts refused by the schema-less loader are outside the quantifier (they are C03's business); only %define/%include refusal is checked on them",
]
URL = "file:///zcv/main.conf"
import os as _os
_os.environ["ZCV_EMPTY"] = ""          # a variable that is set, to nothing
EXTRA_SHAPES = ["k a$$b", "k $$", "k (x", "K v2", "k v", "%import q$$", "<a/ >", "<a n/ >",
                "</a/>", "<B N>", "</B>", "%import p", "<a//>", "<a n//>",
                "k a\u2028b", "k a\x0cb\x85c", "k a\rb", "%include $(ZCV_EMPTY)", "%define $(ZCV_EMPTY)", "<a A>", "<b B/>",
                # U+FEFF is no blank: it is part of a key, on whichever line the key is written
                "\ufeffk v", "\ufeff<a>", "\ufeff# c"]


def _mods():
    import ZConfig
    import ZConfig.schemaless
    return ZConfig


def conv(sec):
    return {"type": sec.type, "name": sec.name,
            "keys": {k: list(v) for k, v in sec.items()},
            "sections": [conv(s) for s in sec.sections],
            "imports": list(sec.imports)}


def load(text):
    ZConfig = _mods()
    return ZConfig.schemaless.loadConfigFile(io.StringIO(text), URL)


def has_directive(text, names=("define", "include")):
    for raw in model.physical_lines(text):
        try:
            ev = model.classify_line(raw)
        except model.SyntaxReject:
            return False
        if ev[0] in names:
            return True
    return False


def check_text(text):
    """-> (status, [(sig, detail)])  status in accepted/rejected/refused"""
    ZConfig = _mods()
    try:
        a = load(text)
    except ZConfig.ConfigurationError:
        return "rejected", []
    except NotImplementedError:
        return "refused", []
    except Exception as e:  # noqa
        return "rejected", [("load:internal:%s" % type(e).__name__, repr(e))]
    # was a %define / %include silently dropped?
    try:
        if _directive_in_valid_text(text):
            return "accepted", [("directive-silently-dropped", "accepted %r" % text)]
    except Exception:
        pass
    try:
        da = conv(a)
        s = str(a)
    except Exception as e:  # noqa
        return "accepted", [("str:internal:%s" % type(e).__name__, repr(e))]
    if not isinstance(s, str):
        return "accepted", [("str:not-a-string", repr(type(s)))]
    try:
        b = load(s)
    except Exception as e:  # noqa
        return "accepted", [(_classify(da, "reload-fails"), "str() = %r ; reload raised %r" % (s, e))]
    db = conv(b)
    out = []
    if db != da:
        out.append((_classify(da, "reload-differs"), "str() = %r ; first %r ; reload %r" % (s, da, db)))
    else:
        s2 = str(b)
        if s2 != s:
            out.append(("second-serialisation-differs", "%r vs %r" % (s, s2)))
        else:
            out.extend(assembled(text, a))
    return "accepted", out


def _round_trip(cfg, label):
    want = conv(cfg)
    try:
        s = str(cfg)
        back = conv(load(s))
    except Exception as e:  # noqa
        return [("%s:reload-fails" % label, "%r" % (e,))]
    if back != want:
        return [("%s:reload-differs" % label, "str() = %r ; held %r ; reload %r" % (s, want, back))]
    return []


def assembled(text, a):
    """"Inspecting and modifying it, and re-serializing the result": the loaded configuration --
    which has been serialised once already -- is changed through its documented interface, and
    assembled further from fragments with the module's own building blocks; what it holds then
    must survive str() and a reload like any loaded configuration."""
    ZConfig = _mods()
    out = []
    # (1) values appended to an existing key, a new key, a new section
    secs = [a]
    for sec in secs:
        secs.extend(sec.sections)
    for sec in secs:
        if len(sec):
            sec[sorted(sec)[0]].append("zcv appended")
            break
    a["zcv-new-key"] = ["v1", "v 2"]
    new = ZConfig.schemaless.Section("zcvtype", "zcvname")
    new["k"] = ["v"]
    a.sections.insert(0, new)
    out.extend(_round_trip(a, "modified-after-str"))
    if out:
        return out
    # (2) the same text parsed once more into the existing tree, and into one of its sections
    for target in [a] + a.sections[1:2]:
        ctx = ZConfig.schemaless.Context()
        ctx.top = a
        try:
            ZConfig.schemaless.Parser(ZConfig.schemaless.Resource(io.StringIO(text), URL), ctx).parse(target)
        except Exception as e:  # noqa
            out.append(("fragment-parsed-into-a-loaded-configuration:raises:%s" % type(e).__name__, repr(e)[:200]))
            return out
        if len(set(a.imports)) != len(a.imports):
            out.append(("fragment-parsed-into-a-loaded-configuration:duplicate-imports", repr(a.imports)))
            return out
        out.extend(_round_trip(a, "fragment-parsed-into-a-loaded-configuration"))
        if out:
            return out
    return out


def _directive_in_valid_text(text):
    try:
        evs = model.ref_events(text)
    except model.SyntaxReject:
        return False
    return any(ev[0] in ("define", "include") for _, ev in evs)


def _classify(d, base):
    """Make the signature name the root cause as far as the structure shows it."""
    tags = set()

    def walk(sec):
        for k, vs in sec["keys"].items():
            for v in vs:
                if "$" in v:
                    tags.add("dollar-in-value")
        for p in sec["imports"]:
            if "$" in p:
                tags.add("dollar-in-import")
        if sec["type"].endswith("/") or (sec["name"] or "").endswith("/"):
            tags.add("trailing-slash-in-header")
        for s in sec["sections"]:
            walk(s)
    walk(d)
    return base + (":" + "+".join(sorted(tags)) if tags else "")


def evaluate(case):
    return [failure(sig, case, d) for sig, d in check_text(case["text"])[1]]


def nontrivial(text, status):
    if status != "accepted":
        return False
    for raw in model.physical_lines(text):
        line = model.strip_ws(raw)
        if not line or line[0] == "#":
            continue
        if line[0] in "<%":
            return True
        kv = model.split_key_value(line)
        if kv and (kv[1] == "" or "$" in kv[1] or kv[1][0] in "<>/%#()"):
            return True
    return False


DEEP_SHAPES = ["<a n>", "<A N>", "<a>", "</a>", "k v", "k", "<a n/>"]


def shards(tier, seed):
    maxtok = 4 if tier == "quick" else 5
    specs = [{"part": "single", "first": f, "maxtok": maxtok} for f in linegen.TOKENS]
    shapes = linegen.LINE_SHAPES + EXTRA_SHAPES
    for i in range(len(shapes)):
        specs.append({"part": "multi", "first": i, "maxlines": 4 if tier == "thorough" else 3})
    # few shapes, long texts: sections opened again under the same (type, name), nesting, repeats
    for i in range(len(DEEP_SHAPES)):
        specs.append({"part": "deep", "first": i, "maxlines": 7 if tier == "thorough" else 6})
    specs.append({"part": "long"})
    per = 400 if tier == "quick" else 6000
    for i in range(16):
        specs.append({"part": "random", "seed": seed * 1000 + i, "n": per,
                      "directives": i % 4 == 3})
    return specs


def _do(res, text):
    res.evaluations += 1
    status, fails = check_text(text)
    res.count(status)
    nt = nontrivial(text, status)
    for sig, d in fails:
        res.fail(sig, {"text": text}, d)
    return nt, status


def run_shard(spec):
    res = Result()
    part = spec["part"]
    if part == "long":
        # size classes: lines near 64 Ki and 1 Mi characters, flush left inside nested sections
        # (the serialiser re-indents them)
        for base in (1 << 16, 1 << 20):
            for d in range(-8, 3):
                n = base + d
                for text in ("<a>\nk " + "v" * (n - 3) + "\n</a>\n",
                             "<a>\n<b>\n<c>\nk " + "v" * (n - 3) + "\n</c>\n</b>\n</a>\n",
                             "k " + "v" * (n - 3) + "\n"):
                    _do(res, text)
        res.exhaustive_parts.append("lines of 2**16 +- 8 and 2**20 +- 8 characters at nesting depth 0, 1 and 3")
        return res
    if part == "single":
        f = spec["first"]
        lines = linegen.single_lines_with_first([f], spec["maxtok"])
        if f == "<":
            lines = itertools.chain([""], lines)
        for line in lines:
            for text in (line, "<a>\n" + line + "\n</a>\n"):
                nt, status = _do(res, text)
                if nt:
                    res.nontrivial_count += 1
            if nt and len(line) > 4:
                res.sample({"text": text}, limit=1)
        res.exhaustive_parts.append(
            "single lines: all sequences of <= %d tokens over %r, bare and inside <a>..</a>"
            % (spec["maxtok"], linegen.TOKENS))
    elif part == "multi":
        shapes = linegen.LINE_SHAPES + EXTRA_SHAPES
        first = shapes[spec["first"]]
        if spec["first"] == 0:
            _do(res, "")
        for n in range(0, spec["maxlines"]):
            for t in itertools.product(shapes, repeat=n):
                text = "\n".join((first,) + t) + "\n"
                nt, status = _do(res, text)
                if nt:
                    res.nontrivial_count += 1
                    if n >= 2:
                        res.sample({"text": text}, limit=1)
        res.exhaustive_parts.append("multi-line: all texts of <= %d lines over %r"
                                    % (spec["maxlines"], shapes))
    elif part == "deep":
        shapes = DEEP_SHAPES
        first = shapes[spec["first"]]
        for n in range(0, spec["maxlines"]):
            for t in itertools.product(shapes, repeat=n):
                seq = (first,) + t
                # only texts whose sections balance (the others are C03's business)
                depth = 0
                ok = True
                for l in seq:
                    if l.startswith("</"):
                        depth -= 1
                        if depth < 0:
                            ok = False
                            break
                    elif l.startswith("<") and not l.endswith("/>"):
                        depth += 1
                if not ok or depth:
                    continue
                text = "\n".join(seq) + "\n"
                nt, status = _do(res, text)
                if nt:
                    res.nontrivial_count += 1
                    if n >= 4:
                        res.sample({"text": text}, limit=1)
        res.exhaustive_parts.append("deep: all balanced texts of <= %d lines over %r" % (spec["maxlines"], shapes))
    else:
        _random(res, spec)
    return res


def _random(res, spec):
    import hypothesis
    from hypothesis import HealthCheck, Phase, given, settings
    from hypothesis import strategies as st

    @hypothesis.seed(spec["seed"])
    @settings(max_examples=spec["n"], database=None, deadline=None, derandomize=False,
              phases=[Phase.generate], report_multiple_bugs=False,
              suppress_health_check=list(HealthCheck))
    @given(linegen.random_texts(st, with_directives=spec["directives"]))
    def run(text):
        nt, status = _do(res, text)
        res.count("random:" + status)
        if nt:
            res.nontrivial(key=text)
            if text.count("<") >= 4:
                res.sample({"text": text}, limit=1)

    run()


def check_coverage(tier, counters):
    probs = []
    if counters.get("random:accepted", 0) < 200:
        probs.append("only %d accepted random texts" % counters.get("random:accepted", 0))
    return probs
