"""C15 -- the result of a load does not depend on how the text is laid out.

Metamorphic, model-free: a text and a rewritten text (<= 5 composed layout rewrites) must give
equal value trees, or both be rejected.  Texts: the C01 corpus (accepted and rejected) and
texts for the shipped logger and basic-mapping components.
"""

import collections

from zcv import digest, gen, loadcheck, model, refload
from zcv.core import Result, failure

ID = "C15"
LEVEL = "exploration"
RULE = ("texts of the C01 campaign (fault levels 0..3) and grammar-generated texts for the "
        "shipped logger component and the basic mapping component; up to 5 composed rewrites "
        "from {re-indent with spaces/tabs/Unicode blanks, trailing whitespace, insert blank and "
        "comment lines, change letter case of section types / names / defined names / "
        "references / keys (only where every key type in the schema is case-insensitive), "
        "<t/> <-> <t></t> for empty sections, swap adjacent lines of different keys or a key "
        "line and a section block}. Non-trivial = >= 2 different rewrite kinds applied, at "
        "least one inside a nested section; distinct by hash of (schema, text, rewritten text).")
ASSUMPTIONS = [
    "no reference model: the oracle is equality of the outcomes of two loads of the real code",
    "logger factories are compared by their configuration (public attributes, recursively), not called",
    "reordering never moves a line across a %define/%include/%import line or swaps two section blocks",
]
MAIN = "file:///zcv/main.conf"

LOGGER_SCHEMA = """<schema>
  <import package="ZConfig.components.logger"/>
  <section type="eventlog" name="*" attribute="eventlog"/>
  <multisection type="logger" name="*" attribute="loggers"/>
</schema>
"""
MAPPING_SCHEMA = """<schema>
  <import package="ZConfig.components.basic" file="mapping.xml"/>
  <sectiontype name="dict" extends="ZConfig.basic.mapping"/>
  <sectiontype name="idict" extends="ZConfig.basic.mapping" keytype="identifier"/>
  <multisection name="*" type="dict" attribute="dicts"/>
  <section name="*" type="idict" attribute="idict"/>
  <key name="title" default="none"/>
</schema>
"""


def logger_text(rng):
    lines = []

    def handler(ind):
        out = [ind + "<logfile>", ind + "  path " + rng.choice(["STDOUT", "STDERR"])]
        if rng.random() < 0.5:
            out.append(ind + "  level " + rng.choice(["info", "WARN", "debug", "25", "all"]))
        if rng.random() < 0.5:
            out.append(ind + "  format " + rng.choice(["%(message)s", "%(levelname)s %(name)s %(message)s", "------ %(asctime)s"]))
        if rng.random() < 0.3:
            out.append(ind + "  dateformat %H:%M")
        rng.shuffle(out[1:])
        out.append(ind + "</logfile>")
        return out
    if rng.random() < 0.6:
        lines.append("<eventlog>")
        if rng.random() < 0.7:
            lines.append("  level " + rng.choice(["info", "ERROR", "blather", "10", "bogus"]))
        for _ in range(rng.choice([0, 1, 2])):
            lines.extend(handler("  "))
        lines.append("</eventlog>")
    for i in range(rng.choice([0, 1, 2])):
        lines.append("<logger%s>" % rng.choice(["", " n%d" % i]))
        body = ["  name zcv.c15.%s" % rng.choice(["a", "b.c", "D"]),
                "  level " + rng.choice(["info", "Warn", "critical", "0", "51"])]
        if rng.random() < 0.5:
            body.append("  propagate " + rng.choice(["yes", "no", "maybe"]))
        rng.shuffle(body)
        if rng.random() < 0.15:
            body = body[1:]
        lines.extend(body)
        for _ in range(rng.choice([0, 1])):
            lines.extend(handler("  "))
        lines.append("</logger>")
    return "".join(l + "\n" for l in lines)


def mapping_text(rng):
    lines = []
    if rng.random() < 0.5:
        lines.append("title " + rng.choice(["x", "a b"]))
    for i in range(rng.choice([0, 1, 2, 3])):
        name = rng.choice(["", " d%d" % i])
        keys = rng.sample(["alpha", "Beta", "gamma-1", "delta.x", "ALPHA", "x y"], rng.choice([0, 1, 2, 3]))
        if not keys and rng.random() < 0.5:
            lines.append("<dict%s/>" % name)
            continue
        lines.append("<dict%s>" % name)
        for k in keys:
            lines.append("  %s %s" % (k, rng.choice(["1", "two words", ""])))
        lines.append("</dict>")
    if rng.random() < 0.5:
        lines.append("<idict>")
        for k in rng.sample(["alpha", "Alpha", "b_1", "bad-key"], rng.choice([1, 2])):
            lines.append("  %s v" % k)
        lines.append("</idict>")
    return "".join(l + "\n" for l in lines)


# ------------------------------------------------------------------ rewrites

BLANKS = [" ", "  ", "\t", " ", " ", " \t ", "\x0c", "\x0b ", "\x1c", " \x1f", "\x1e\x1d", "\u00a0", "\u3000", "\x85"]


def classify(lines):
    out = []
    for l in lines:
        try:
            out.append(model.classify_line(l))
        except model.SyntaxReject:
            out.append(("bad",))
    return out


def _simple_case(c):
    """Letters whose other case is one character that lower-cases to the same thing whatever
    the context (not sharp s, not dotted capital I, not the sigmas)."""
    if c.isascii():
        return c.isalpha()
    o = c.swapcase()
    return (len(o) == 1 and o != c and o.swapcase() == c and len(c.lower()) == 1 and o.lower() == c.lower()
            and c not in "\u03a3\u03c3\u03c2")


def swapcase_some(rng, s):
    return "".join(c.swapcase() if _simple_case(c) and rng.random() < 0.5 else c for c in s)


def rewrite(rng, text, kind, keys_caseless):
    """-> (new text, applied?, at_depth) ; every rewrite keeps the meaning the statement says."""
    lines = text.split("\n")
    if lines and lines[-1] == "":
        lines.pop()
    if not lines:
        return text, False, 0
    evs = classify(lines)
    dep = gen.line_depths(lines)
    n = len(lines)
    if kind == "indent":
        i = rng.randrange(n)
        lines[i] = rng.choice(BLANKS + [""]) + lines[i].strip()
        return join(lines), True, dep[i]
    if kind == "trailing":
        i = rng.randrange(n)
        lines[i] = lines[i] + rng.choice(BLANKS)
        return join(lines), True, dep[i]
    if kind == "blank":
        i = rng.randrange(n + 1)
        lines.insert(i, rng.choice(["", "   ", "# a comment", "\t#<not a section>", "#%define x y", " ", "\x0c",
                                    "\x1c\x1f", "# page\x0cbreak", "# unc \\\\host\\share\\", "\u00a0# c"]))
        return join(lines), True, dep[min(i, n)]
    if kind == "case-header":
        idx = [i for i, e in enumerate(evs) if e[0] in ("open", "close")]
        if not idx:
            return text, False, 0
        i = rng.choice(idx)
        s = lines[i]
        lines[i] = swapcase_some(rng, s)
        return join(lines), True, dep[i]
    if kind == "case-define":
        idx = [i for i, e in enumerate(evs) if e[0] == "define"]
        if not idx:
            return text, False, 0
        i = rng.choice(idx)
        s = lines[i].strip()
        parts = s.split(None, 2)          # %define NAME value
        if len(parts) < 2:
            return text, False, 0
        parts[1] = swapcase_some(rng, parts[1])
        lines[i] = " ".join(parts[:2]) + (" " + parts[2] if len(parts) > 2 else "")
        return join(lines), True, dep[i]
    if kind == "case-ref":
        idx = [i for i, l in enumerate(lines) if "$" in l and evs[i][0] in ("key", "define", "import", "include")]
        if not idx:
            return text, False, 0
        i = rng.choice(idx)
        s = lines[i]
        out = []
        k = 0
        changed = False
        while k < len(s):
            c = s[k]
            if c == "$" and k + 1 < len(s):
                d = s[k + 1]
                if d == "$":
                    out.append("$$")
                    k += 2
                    continue
                if d == "(":
                    # environment names keep their case: copy through the closing parenthesis
                    j = s.find(")", k)
                    j = len(s) if j < 0 else j + 1
                    out.append(s[k:j])
                    k = j
                    continue
                j = k + 1
                if d == "{":
                    j += 1
                m = j
                while m < len(s) and (s[m] in model.NAME_CHARS):
                    m += 1
                out.append(s[k:j] + swapcase_some(rng, s[j:m]))
                changed = changed or m > j
                k = m
                continue
            out.append(c)
            k += 1
        if not changed:
            return text, False, 0
        lines[i] = "".join(out)
        return join(lines), True, dep[i]
    if kind == "case-key":
        if keys_caseless is False:
            return text, False, 0
        idx = [i for i, e in enumerate(evs) if e[0] == "key"]
        if keys_caseless is not True:
            # per container: only key lines that sit in a container with a case-insensitive key type
            sm = keys_caseless
            stack = [sm.top]
            ok = set()
            for i, e in enumerate(evs):
                if e[0] == "open":
                    if not e[3]:
                        stack.append(sm.types.get(e[1]))
                elif e[0] == "close":
                    if len(stack) > 1:
                        stack.pop()
                elif e[0] == "key" and stack[-1] is not None and stack[-1].kt != "identifier":
                    ok.add(i)
            idx = [i for i in idx if i in ok]
        if not idx:
            return text, False, 0
        i = rng.choice(idx)
        s = lines[i]
        lead = s[:len(s) - len(s.lstrip())]
        body = s.lstrip()
        klen = len(evs[i][1])
        lines[i] = lead + swapcase_some(rng, body[:klen]) + body[klen:]
        return join(lines), True, dep[i]
    if kind == "empty-form":
        idx = [i for i, e in enumerate(evs) if e[0] == "open"]
        rng.shuffle(idx)
        for i in idx:
            e = evs[i]
            s = lines[i].strip()
            if e[3]:
                body = s[1:-1].rstrip()
                body = body[:-1].rstrip()           # drop the '/'
                t = body.split()[0]
                lines[i:i + 1] = ["<%s%s>" % (body, " " if body.endswith("/") else ""), "</%s>" % t]
                return join(lines), True, dep[i]
            # find the matching closer: only blank/comment lines may sit between
            j = i + 1
            while j < n and evs[j][0] in ("blank", "comment"):
                j += 1
            if j < n and evs[j][0] == "close" and evs[j][1] == e[1] and j == i + 1:
                lines[i:j + 1] = [s[:-1] + rng.choice(["/>", " />"])]
                return join(lines), True, dep[i]
        return text, False, 0
    if kind == "swap":
        # units of one container body: key lines and whole section blocks
        starts = [i for i in range(n)]
        rng.shuffle(starts)
        for i in starts:
            if evs[i][0] != "key" or "$" in lines[i]:
                continue
            d = dep[i]
            # next unit at the same depth
            j = i + 1
            if j >= n or dep[j] != d:
                continue
            if evs[j][0] == "key":
                if "$" in lines[j] or evs[j][1].lower() == evs[i][1].lower():
                    continue
                lines[i], lines[j] = lines[j], lines[i]
                return join(lines), True, d
            if evs[j][0] == "open":
                if evs[j][3]:
                    k = j + 1
                else:
                    k = next((m + 1 for m in range(j, n) if dep[m + 1] == d and m > j), None)
                    if k is None:
                        continue
                block = lines[j:k]
                if any(ev[0] in ("define", "include", "import", "bad") for ev in evs[j:k]):
                    continue
                lines[i:k] = block + [lines[i]]
                return join(lines), True, d
        return text, False, 0
    return text, False, 0


KINDS = ["indent", "trailing", "blank", "case-header", "case-define", "case-ref", "case-key",
         "empty-form", "swap", "swap"]


def join(lines):
    return "".join(l + "\n" for l in lines)


def outcome(schema, text):
    got = loadcheck.real_load(schema, text, url=MAIN)
    if got[0] == "ok":
        return ("ok", digest.digest(got[1]), got[1])
    if got[0] == "reject":
        return ("reject",)
    return ("internal", type(got[1]).__name__, got[2])


def compare(schema, text, rewritten):
    a = outcome(schema, text)
    b = outcome(schema, rewritten)
    out = []
    if a[0] == "internal" or b[0] == "internal":
        return a, b, out              # C07's business
    if a[0] != b[0]:
        out.append(("layout-changes-verdict:%s->%s" % (a[0], b[0]), ""))
    elif a[0] == "ok":
        d = digest.first_diff(a[1], b[1])
        if d:
            out.append(("layout-changes-tree", d))
        else:
            # the same values, item by item -- and to the application's own comparison?
            d = digest.unequal_plain_values(a[2], b[2])
            if d:
                out.append(("layout-changes-tree:values-compare-unequal", d))
    return a[:2], b[:2], out


_FIXED = {}


# section types that an EMPTY section satisfies only through defaults: a required multikey with
# defaults, a required section slot is absent on purpose; both spellings of "empty" must agree
REQDEF_SCHEMA = """<schema>
  <sectiontype name="t"><multikey name="m" required="yes"><default>d1</default><default>d 2</default></multikey>
    <key name="o" default="x"/></sectiontype>
  <sectiontype name="u"><multikey name="+" attribute="mm" required="yes"><default key="a">1</default></multikey></sectiontype>
  <sectiontype name="w"><key name="r" required="yes"/></sectiontype>
  <multisection type="t" name="*" attribute="ts"/>
  <multisection type="u" name="*" attribute="us"/>
  <multisection type="w" name="*" attribute="ws"/>
</schema>"""


def reqdef_text(rng):
    lines = []
    for i in range(rng.randint(1, 4)):
        t = rng.choice(["t", "t", "u", "w"])
        form = rng.choice(["empty", "empty", "open-close", "filled"])
        name = rng.choice(["", " n%d" % i])
        if form == "empty":
            lines.append("<%s%s/>" % (t, name))
        elif form == "open-close":
            lines += ["<%s%s>" % (t, name), "</%s>" % t]
        else:
            lines += ["<%s%s>" % (t, name), "  %s v" % {"t": "m", "u": "b", "w": "r"}[t], "</%s>" % t]
    return "".join(l + "\n" for l in lines)


def fixed_schema(which):
    if which not in _FIXED:
        _FIXED[which] = loadcheck.load_schema_xml({"logger": LOGGER_SCHEMA, "mapping": MAPPING_SCHEMA, "reqdef": REQDEF_SCHEMA}[which])
    return _FIXED[which]


def evaluate(case):
    try:
        if case.get("fixed"):
            schema = fixed_schema(case["fixed"])
        else:
            schema, _ = loadcheck.load_schema(case["schema"])
    except Exception:
        return []
    _, _, fl = compare(schema, case["text"], case["rewritten"])
    return [failure(sig, case, d + " kinds=%r" % (case.get("kinds"),)) for sig, d in fl]


SHRINK_SKIP = {"text", "rewritten", "schema", "kinds"}


def shards(tier, seed):
    n = 9000 if tier == "thorough" else 900
    return [{"seed": seed, "lo": i * n, "hi": (i + 1) * n} for i in range(16)]


def keys_caseless(ast):
    kts = [ast.get("keytype") or "basic-key"]
    for t in ast["types"]:
        if t.get("keytype"):
            kts.append(t["keytype"])
    return "identifier" not in kts


def apply_rewrites(rng, text, caseless):
    cur = text
    kinds = []
    deep = False
    for _ in range(rng.randint(1, 5)):
        k = rng.choice(KINDS)
        new, applied, d = rewrite(rng, cur, k, caseless)
        if applied:
            cur = new
            kinds.append(k)
            deep = deep or d >= 1
    return cur, kinds, deep


def run_shard(spec):
    res = Result()
    counters = collections.Counter()
    for i in range(spec["lo"], spec["hi"]):
        rng = loadcheck.case_rng(spec["seed"] + 1515, i)
        which = i % 5
        if i % 25 == 7:
            fixed, ast, xml = "reqdef", None, "reqdef"
            schema = fixed_schema("reqdef")
            texts = [reqdef_text(rng) for _ in range(3)]
            caseless = True
        elif which == 3:
            fixed, ast, xml = "logger", None, "logger"
            schema = fixed_schema("logger")
            texts = [logger_text(rng) for _ in range(3)]
            caseless = True
        elif which == 4:
            fixed, ast, xml = "mapping", None, "mapping"
            schema = fixed_schema("mapping")
            texts = [mapping_text(rng) for _ in range(3)]
            caseless = False
        else:
            fixed = None
            # every third schema: required multikeys may carry defaults (the one kind of required
            # item that an empty section satisfies)
            ast = gen.gen_schema(rng, allow_required_defaults=True if i % 3 == 0 else None)
            sm = refload.compile_schema(ast)
            try:
                schema, xml = loadcheck.load_schema(ast)
            except Exception:  # noqa
                counters["schema-rejected"] += 1
                continue
            texts = [gen.gen_text(rng, sm, f) for f in (0, 0, 1, 2)]
            from zcv.props import c06
            texts = [c06.add_defines(rng, t) if rng.random() < 0.5 else t for t in texts]
            caseless = True if keys_caseless(ast) else sm
        for text in texts:
            if not text.strip():
                continue
            for _r in range(3):
                rewritten, kinds, deep = apply_rewrites(rng, text, caseless)
                if not kinds:
                    continue
                res.evaluations += 1
                a, b, fl = compare(schema, text, rewritten)
                counters["original:" + a[0]] += 1
                counters["corpus:" + (fixed or "generated")] += 1
                for k in set(kinds):
                    counters["rewrite:" + k] += 1
                if len(set(kinds)) >= 2 and deep:
                    res.nontrivial(key=[xml, text, rewritten])
                    if len(res.samples) < 1:
                        res.sample({"schema": xml if fixed else "generated", "text": text,
                                    "rewritten": rewritten, "kinds": kinds, "outcome": a[0]})
                for sig, d in fl:
                    res.fail(sig, {"schema": ast, "fixed": fixed, "text": text, "rewritten": rewritten,
                                   "kinds": kinds}, d + " kinds=%r" % (kinds,))
    res.counters.update(counters)
    return res


def check_coverage(tier, c):
    problems = []
    for k in KINDS:
        if c.get("rewrite:" + k, 0) < 30:
            problems.append("rewrite %s applied only %d times" % (k, c.get("rewrite:" + k, 0)))
    for k in ("original:ok", "original:reject", "corpus:logger", "corpus:mapping"):
        if c.get(k, 0) < 100:
            problems.append("class %s has only %d cases" % (k, c.get(k, 0)))
    return problems
