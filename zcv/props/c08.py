"""C08 -- a rejected configuration names the resource and line that caused the rejection.

Domain: texts of the C01 family that the reference accepts; exactly one fault is injected
(insert a malformed / bad-directive / bad-substitution / unknown-key line anywhere; repeat a
key line; make a key or a value unconvertible; change a header's type or name; delete a
line; duplicate a section; switch <t/> <-> <t></t>), then 0..3 balanced line ranges are
moved into included resources (same directory, sub-directory, parent directory).
Oracle: the reference loader's culprit (line, URL) -- promised only for the fault kinds the
statement lists; the raised error must carry exactly that lineno and url, and a conversion
error additionally the offending text and the original ValueError.
"""

import collections

from zcv import refdt, gen, loadcheck, model, refload
from zcv.core import Result, failure

ID = "C08"
LEVEL = "exploration"
RULE = ("accepted texts of the C01 campaign (reference verdict ACCEPT) with exactly one injected "
        "fault of the kinds listed in the statement, at a random line position / nesting depth, "
        "in both spellings of empty sections, then split into up to 3 included resources; the "
        "mutated load must be rejected with the line and URL the reference attributes it to. "
        "Non-trivial = reference verdict REJECT with a promised line, and the fault lies at "
        "nesting depth >= 1, or in an included resource, or on a line > 3; distinct by hash of "
        "(schema XML, resources).")
ASSUMPTIONS = [
    "zcv/refload.py line attribution (DESIGN appendix A) is the trusted reading of the statement",
    "no line is promised for: a missing item at top level (end of input), a section-datatype failure, a missing / cyclic include target, a bad %import",
    "in-memory resources (ConfigLoader.openResource overridden) with file:/// URLs; real files are C06/C18's business",
]
MAIN = "file:///zcv/a/b/c/main.conf"

INSERT = ["<x y z>", "<", "</x", "(v", "<a", "a>b <", "%foo x", "%define", "%define 1x v", "%include",
          "% define a b", "k $nope", "k ${x", "k $", "%define d $", "%define d ${nope}",
          "nosuchkey v", "nosuchkey", "1x v", "<nosuchtype/>", "<nosuchtype n>", "</nosuchtype>",
          "%include nosuchfile.conf", "%import no.such.package", "%define zd $nope", "%define ZD ${x",
          "%define Zd a$", "k $(x", "k $( HOME)", "k a$(/etc", "%define zd $(", "%include $(x", "k $(ZCV_NO_SUCH_ENV_VARIABLE)",
          # headers with nothing, or only delimiters, between the angle brackets
          "<>", "</>", "< >", "<//>", "< />", "</ >", "<>>", "<<>"]
BADVALUES = ["abc", "65536", "-1", "5tb", "5x", "1a", "a b", "maybe", "host:99999", "1.2.3", "",
             "x" * 300, "9" * 257 + "z", "q " * 2000]


def split_lines(text):
    ls = text.split("\n")
    if ls and ls[-1] == "":
        ls.pop()
    return ls


def inject(rng, text):
    """-> (kind, new text) with one deviation (whether it is a fault is for the reference to say)."""
    lines = split_lines(text)
    kinds = ["insert", "insert", "insert", "dupkey", "badvalue", "badvalue", "badkey", "header-type",
             "header-name", "delete", "dupsection", "respell"]
    for _attempt in range(8):
        kind = rng.choice(kinds)
        n = len(lines)
        idx = [i for i, l in enumerate(lines) if l.strip() and l.strip()[0] not in "#%<"]
        heads = [i for i, l in enumerate(lines) if l.strip().startswith("<") and not l.strip().startswith("</")]
        if kind == "insert":
            i = rng.randrange(n + 1)
            indent = rng.choice(["", "  ", "\t "])
            return kind, join(lines[:i] + [indent + rng.choice(INSERT)] + lines[i:])
        if kind == "dupkey" and idx:
            i = rng.choice(idx)
            ranges = gen.balanced_ranges(lines)
            # put the copy somewhere later at the same depth inside the same section
            dep = gen.line_depths(lines)
            later = [j for j in range(i + 1, n + 1) if dep[j] == dep[i] and min(dep[i:j + 1]) >= dep[i]]
            j = rng.choice(later) if later else i + 1
            return kind, join(lines[:j] + [lines[i]] + lines[j:])
        if kind == "badvalue" and idx:
            i = rng.choice(idx)
            parts = lines[i].split(None, 1)
            lead = lines[i][:len(lines[i]) - len(lines[i].lstrip())]
            return kind, join(lines[:i] + [lead + parts[0] + " " + rng.choice(BADVALUES)] + lines[i + 1:])
        if kind == "badkey" and idx:
            i = rng.choice(idx)
            parts = lines[i].strip().split(None, 1)
            bad = rng.choice(["1x", "a/b", "x!", "300.1.1.1", "_y", "1" + "x" * 300, "_" * 5000])
            return kind, join(lines[:i] + [bad + (" " + parts[1] if len(parts) > 1 else "")] + lines[i + 1:])
        if kind in ("header-type", "header-name") and heads:
            i = rng.choice(heads)
            s = lines[i].strip()
            empty = s.endswith("/>")
            body = s[1:-2] if empty else s[1:-1]
            parts = body.split()
            if not parts:
                continue
            if kind == "header-type":
                newt = rng.choice(["nosuchtype", "abs1", "t1", "t2", "t3"])
                if empty:
                    parts[0] = newt
                else:
                    # keep the closer consistent so that the only fault is the header's
                    dep = gen.line_depths(lines)
                    close = next((j for j in range(i + 1, n) if dep[j + 1] == dep[i]), None)
                    if close is None:
                        continue
                    lines = list(lines)
                    lines[close] = "</%s>" % newt
                    parts[0] = newt
            else:
                newn = rng.choice([None, "n1", "zz", "*", "+", "alpha"])
                parts = parts[:1] + ([newn] if newn else [])
            lines = list(lines)
            hdr = " ".join(parts)
            lines[i] = "<%s%s>" % (hdr, "/" if empty else (" " if hdr.endswith("/") else ""))
            return kind, join(lines)
        if kind == "delete" and n:
            i = rng.randrange(n)
            s = lines[i].strip()
            if s.startswith("<") and not s.endswith("/>"):
                continue             # would unbalance: that is the 'insert' kinds' business
            return kind, join(lines[:i] + lines[i + 1:])
        if kind == "dupsection" and heads:
            i = rng.choice(heads)
            dep = gen.line_depths(lines)
            if lines[i].strip().endswith("/>"):
                j = i + 1
            else:
                j = next((k + 1 for k in range(i + 1, n) if dep[k + 1] == dep[i]), None)
                if j is None:
                    continue
            return kind, join(lines[:j] + lines[i:j] + lines[j:])
        if kind == "respell" and heads:
            # change the spelling of an empty section; combined with a second, real fault
            i = rng.choice(heads)
            s = lines[i].strip()
            if s.endswith("/>"):
                body = s[1:-2].strip()
                t = body.split()[0]
                lines = lines[:i] + ["<%s%s>" % (body, " " if body.endswith("/") else ""), "</%s>" % t] + lines[i + 1:]
            elif i + 1 < n and lines[i + 1].strip().startswith("</"):
                lines = lines[:i] + [s[:-1] + "/>"] + lines[i + 2:]
            else:
                continue
            text2 = join(lines)
            k2, t2 = inject(rng, text2)
            return "respell+" + k2, t2
    return "none", text


def join(lines):
    return "".join(l + "\n" for l in lines)


_FILES = {"n": 0}


def compare(ast, sm, schema, resources, main=MAIN, mode="mem"):
    """mode: 'mem' in-memory resources with URLs; 'files' real files loaded by URL through the
    real openResource; 'nourl' a single resource given as a file object without any URL."""
    import shutil
    ZConfig = loadcheck.zc()
    root = None
    if mode == "files":
        resources, main, root = loadcheck.materialise(resources, main)
    try:
        ref = refload.ref_load(ast, resources, main, sm=sm)
        out = []
        if ref.kind != "reject":
            return ref, None, out
        if mode == "files":
            _FILES["n"] += 1
            if _FILES["n"] % 2:
                got = loadcheck.real_load_url(schema, main)
            else:
                # the same relative name as many loads before it, from another working directory
                import os
                from urllib.request import url2pathname
                path = url2pathname(main[len("file://"):])
                old_cwd = os.getcwd()
                os.chdir(os.path.dirname(path))
                try:
                    got = loadcheck.real_load_url(schema, os.path.basename(path))
                finally:
                    os.chdir(old_cwd)
        elif mode == "fileurl" and len(resources) == 1:
            # an open disk file together with an explicit URL: the caller's URL names the resource
            import os
            import tempfile
            fd, path = tempfile.mkstemp(prefix="zcv-c08-", suffix=".conf")
            try:
                with os.fdopen(fd, "w", encoding="utf-8", newline="\n") as fh:
                    fh.write(resources[main])
                with open(path, encoding="utf-8", newline="\n") as fh:
                    try:
                        cfg, handler = ZConfig.loadConfigFile(schema, fh, main)
                        got = ("ok", cfg, handler)
                    except ZConfig.ConfigurationError as e:
                        got = ("reject", e)
                    except Exception as e:  # noqa
                        zf, inner = loadcheck.innermost_zconfig_frame(e)
                        got = ("internal", e, zf, inner)
            finally:
                os.unlink(path)
        elif mode == "override":
            ov = harmless_override(sm, resources)
            if ov is None:
                got = loadcheck.real_load_resources(schema, resources, main)
            else:
                got = loadcheck.real_load_resources(schema, resources, main, overrides=[ov])
        elif mode == "nourl" and len(resources) == 1:
            got = loadcheck.real_load(schema, resources[main], url=None)
            if ref.url == main:
                ref.url = None
        else:
            got = loadcheck.real_load_resources(schema, resources, main)
    finally:
        if root:
            shutil.rmtree(root, ignore_errors=True)
    _SCHEMA["schema"] = schema
    return _judge(ZConfig, ref, got, out)


def harmless_override(sm, resources):
    """A specifier for a top-level optional key with an identity datatype that no line of the
    text mentions: the load with it is rejected for the same reason, at the same place."""
    words = set()
    for text in resources.values():
        for l in text.split("\n"):
            w = l.strip().split(None, 1)
            if w:
                words.add(w[0].lower())
    for it in sm.top.items:
        if not it.is_section() and not it.wild and not it.required and it.dt in ("string", "null") \
                and it.name.lower() not in words and refdt.basic_key(it.name)[0] == "ok":
            return "%s=zcv-harmless" % it.name
    return None


def _unq(u):
    from urllib.parse import unquote
    return unquote(u) if isinstance(u, str) else u


_SCHEMA = {}


def _judge(ZConfig, ref, got, out):
    if got[0] == "ok":
        return ref, got, [("accepted-although-faulty:" + ref.rule, repr(ref))]
    if got[0] == "internal":
        return ref, got, [("internal:%s:%s" % (type(got[1]).__name__, got[2]), repr(got[1]))]
    e = got[1]
    if not ref.line_promised:
        return ref, got, out
    lineno = getattr(e, "lineno", None)
    url = getattr(e, "url", None)
    if lineno != ref.lineno:
        out.append(("wrong-line:%s" % ref.rule.split(":")[0],
                    "%s: lineno=%r expected %r (%s: %s)" % (ref.rule, lineno, ref.lineno, type(e).__name__, getattr(e, "message", e))))
    elif _unq(url) != _unq(ref.url):       # the same URL written with or without percent-escapes
        out.append(("wrong-url:%s" % ref.rule.split(":")[0],
                    "%s: url=%r expected %r (%s)" % (ref.rule, url, ref.url, type(e).__name__)))
    if ref.rule in ("value-conversion", "key-conversion"):
        if not isinstance(e, ZConfig.DataConversionError):
            out.append(("conversion-error-wrong-class", "%s for %s" % (type(e).__name__, ref.rule)))
        else:
            if not hasattr(e, "value"):
                out.append(("conversion-error-without-value", repr(e)))
            elif e.value != ref.value:
                out.append(("conversion-error-wrong-value", "value=%r expected %r" % (e.value, ref.value)))
            if not isinstance(getattr(e, "exception", None), ValueError):
                out.append(("conversion-error-without-original-exception", repr(getattr(e, "exception", None))))
            elif ref.dt and _SCHEMA.get("schema") is not None:
                # "the original exception": what the key type / datatype itself raises for this text
                try:
                    _SCHEMA["schema"].registry.get(ref.dt)(ref.value)
                    own = None
                except ValueError as own_:
                    own = own_
                except Exception:  # noqa
                    own = None
                if own is not None and (type(e.exception) is not type(own) or str(e.exception) != str(own)):
                    out.append(("conversion-error-carries-another-exception:%s" % ref.rule,
                                "%r, but the %s %r raises %r" % (e.exception, "key type" if ref.rule == "key-conversion" else "datatype", ref.dt, own)))
    return ref, got, out


def evaluate(case):
    if "existing" in case:
        return [failure(sig, c, d) for sig, d, c in existing_probe()[0] if c == case]
    if "section_text" in case:
        return [failure(sig, case, d) for sig, d in section_datatype_probe(case["section_text"], case.get("resources"))]
    ast = case["schema"]
    try:
        sm = refload.compile_schema(ast)
        schema, _ = loadcheck.load_schema(ast)
    except Exception:
        return []
    res = case["resources"]
    main = case.get("main", MAIN)
    if main not in res:
        return []
    try:
        _, _, fl = compare(ast, sm, schema, res, main, case.get("mode", "mem"))
    except KeyError:
        return []
    return [failure(sig, case, d) for sig, d in fl]


def shards(tier, seed):
    n = 4000 if tier == "thorough" else 400
    specs = [{"seed": seed, "lo": i * n, "hi": (i + 1) * n} for i in range(16)]
    m = 250 if tier == "thorough" else 12
    for i in range(16):
        specs.append({"seed": seed, "lo": i * m, "hi": (i + 1) * m, "every_position": True})
    return specs


# a datatype that refuses with ZConfig's own DataConversionError (about another place)
VALUE_DTS = gen.KEY_DATATYPES + ["zcv.dt.nested", "zcv.dt.nested", "zcv.dt.nested"]

EVERY = ["<x y z>", "%foo x", "k ${x", "nosuchkey-zz v", "<nosuchtype/>", "</nosuchtype>", "%define 1x v", "k $(x"]


SECTION_SCHEMA = """<schema>
  <sectiontype name="inner" datatype="%s"><key name="v"/><multikey name="w"/></sectiontype>
  <sectiontype name="middle"><multisection type="inner" name="*" attribute="inners"/><key name="x"/></sectiontype>
  <sectiontype name="outer" datatype="%s"><multisection type="middle" name="*" attribute="middles"/>
    <multisection type="inner" name="*" attribute="inners"/><key name="v"/></sectiontype>
  <multisection type="outer" name="*" attribute="outers"/>
  <multisection type="inner" name="*" attribute="inners"/>
  <multikey name="pad"/>
</schema>"""
_SECTION_SCHEMAS = {}


def gen_section_text(rng):
    """Nested sections, exactly one of which its section datatype will refuse."""
    lines = []
    slots = []

    def emit(kind, depth):
        ind = "  " * depth
        lines.append("%s<%s s%d>" % (ind, kind, len(lines)))
        slots.append(len(lines))
        for _ in range(rng.randint(0, 2)):
            lines.append("%s  %s ok" % (ind, {"inner": "w", "middle": "x", "outer": "v"}[kind]) if kind != "inner" or True else "")
            if kind != "inner":
                break
        if kind == "outer":
            for _ in range(rng.randint(0, 2)):
                emit(rng.choice(["middle", "inner"]), depth + 1)
        elif kind == "middle":
            for _ in range(rng.randint(1, 2)):
                emit("inner", depth + 1)
        lines.append("%s</%s>" % (ind, kind))
    for _ in range(rng.randint(1, 3)):
        for _p in range(rng.randint(0, 3)):
            lines.append("pad p%d" % len(lines))
        emit(rng.choice(["outer", "outer", "inner"]), 0)
    # the refusal: 'v REJECTME' inside one section whose type has a datatype
    cands = [k for k in slots if lines[k - 1].strip().startswith(("<inner", "<outer"))]
    at = rng.choice(cands)
    ind = lines[at - 1][:len(lines[at - 1]) - len(lines[at - 1].lstrip())]
    # one 'v' per section: drop other v lines of that section level is unnecessary for inner (w is used)
    body = [l for l in lines]
    j = at
    while j < len(body) and body[j].strip().startswith("v "):
        del body[j]
    body.insert(at, ind + "  v REJECTME")
    return "".join(l + "\n" for l in body)


def section_datatype_probe(text, resources=None):
    """Where a refusal by a section datatype is reported must not depend on HOW the datatype says
    no: with a plain ValueError, or with ZConfig's own DataConversionError about another place.
    -> [(sig, detail)]"""
    ZConfig = loadcheck.zc()
    import io
    got = {}
    for label, dt in (("plain", "zcv.dt.picky"), ("nested", "zcv.dt.picky_nested")):
        sch = _SECTION_SCHEMAS.get(dt)
        if sch is None:
            sch = _SECTION_SCHEMAS[dt] = ZConfig.loadSchemaFile(io.StringIO(SECTION_SCHEMA % (dt, dt)))
        res_ = resources or {MAIN: text}
        r = loadcheck.real_load_resources(sch, res_, MAIN)
        if r[0] == "ok":
            got[label] = ("ok",)
        elif r[0] == "reject" and isinstance(r[1], ZConfig.DataConversionError):
            got[label] = ("conversion-error", r[1].lineno, r[1].url)
        elif r[0] == "reject":
            got[label] = (type(r[1]).__name__, getattr(r[1], "lineno", None), getattr(r[1], "url", None))
        else:
            got[label] = ("internal", type(r[1]).__name__, str(r[1])[:100])
    if got["plain"] != got["nested"]:
        return [("section-datatype-refusal-reported-elsewhere", "%r when the datatype raises ValueError, %r when it raises ZConfig's own conversion error" % (got["plain"], got["nested"]))]
    if got["plain"][0] != "conversion-error":
        return [("section-datatype-refusal-not-a-conversion-error", repr(got["plain"]))]
    return []


EXISTING_SCHEMA = """<schema>
  <sectiontype name="s">
    <key name="f" datatype="existing-file"/><key name="d" datatype="existing-directory"/>
    <key name="p" datatype="existing-path"/><key name="n" datatype="existing-dirpath"/>
  </sectiontype>
  <multisection type="s" name="*" attribute="ss"/>
  <key name="f" datatype="existing-file"/><key name="d" datatype="existing-directory"/>
  <key name="p" datatype="existing-path"/><key name="n" datatype="existing-dirpath"/>
</schema>"""
# names that do not exist -- for more than one reason: no such entry, a component longer than any
# file system allows, a path longer than any, a home directory of a user nobody has, a name
# through a file that is no directory, a NUL
NONEXISTENT = ["/zcv-no-such-dir/x", "zcv-no-such-entry", "z" * 300, "a/" + "b" * 256 + "/c", "/" + "d/" * 3000 + "x",
               "~zcvnosuchuser/x", "~zcvnosuchuser", "/etc/passwd/x", "/zcv-no-such-dir/", "x\x00y"]


def existing_probe():
    """An unconvertible value of the four existing-* datatypes is a conversion error with the line,
    the URL, the text and a ValueError -- whatever the reason the name does not exist.
    -> [(sig, detail, case)]"""
    ZConfig = loadcheck.zc()
    import io
    sch = _SECTION_SCHEMAS.get("existing")
    if sch is None:
        sch = _SECTION_SCHEMAS["existing"] = ZConfig.loadSchemaFile(io.StringIO(EXISTING_SCHEMA))
    out = []
    n = 0
    for key in "fdpn":
        for value in NONEXISTENT:
            if key == "n" and "/" not in value.rstrip("/"):
                continue          # existing-dirpath of a bare name is about the current directory
            for shape in ("top", "section", "included"):
                n += 1
                if shape == "top":
                    resources, line, url = {MAIN: "# c\n%s %s\n" % (key, value)}, 2, MAIN
                elif shape == "section":
                    resources, line, url = {MAIN: "<s a>\n# c\n\n  %s %s\n</s>\n" % (key, value)}, 4, MAIN
                else:
                    inc = model.url_join(MAIN, "sub/inc.conf")
                    resources, line, url = {MAIN: "<s a>\n%include sub/inc.conf\n</s>\n", inc: "# c\n# d\n%s %s\n" % (key, value)}, 3, inc
                r = loadcheck.real_load_resources(sch, resources, MAIN)
                case = {"existing": [key, value, shape]}
                if r[0] == "ok":
                    out.append(("existing-probe:accepted", "%s %r" % (key, value[:40]), case))
                elif r[0] == "internal":
                    out.append(("internal:%s:%s" % (type(r[1]).__name__, r[2]), "%s %r: %r" % (key, value[:40], r[1]), case))
                elif not isinstance(r[1], ZConfig.DataConversionError):
                    out.append(("conversion-error-wrong-class", "%s for existing-* %r" % (type(r[1]).__name__, value[:40]), case))
                elif r[1].lineno != line or _unq(r[1].url) != _unq(url):
                    out.append(("wrong-line:value-conversion", "existing-* %r in %s: line %r url %r, expected %r %r"
                                % (value[:40], shape, r[1].lineno, r[1].url, line, url), case))
                elif r[1].value != value.strip() or not isinstance(r[1].exception, ValueError):
                    out.append(("conversion-error-wrong-value", "value %r exception %r" % (r[1].value[:40], r[1].exception), case))
    return out, n


def run_every_position(spec, res, counters):
    """For each accepted text: every insertable line of EVERY at EVERY line position, unsplit and
    split into includes (complete for the text; texts are sampled)."""
    for i in range(spec["lo"], spec["hi"]):
        rng = loadcheck.case_rng(spec["seed"] + 8888, i)
        ast = gen.gen_schema(rng)
        sm = refload.compile_schema(ast)
        try:
            schema, xml = loadcheck.load_schema(ast)
        except Exception:  # noqa
            continue
        text = gen.gen_text(rng, sm, 0, budget=14)
        base = refload.ref_load(ast, {MAIN: text}, MAIN, sm=sm)
        if base.kind != "accept" or not text.strip():
            continue
        lines = split_lines(text)
        counters["every-position-texts"] += 1
        for pos in range(len(lines) + 1):
            for bad in EVERY:
                mutated = join(lines[:pos] + ["  " + bad] + lines[pos:])
                if rng.random() < 0.5:
                    resources, _c = gen.cut_includes(rng, mutated, MAIN, ncuts=rng.choice([1, 2]))
                    mode = rng.choice(["mem", "files"])
                else:
                    resources, mode = {MAIN: mutated}, rng.choice(["mem", "nourl"])
                res.evaluations += 1
                ref, got, fl = compare(ast, sm, schema, resources, MAIN, mode)
                counters["every-position:" + ref.kind] += 1
                if ref.kind == "reject" and ref.line_promised and (len(resources) > 1 or (ref.lineno or 0) > 3):
                    res.nontrivial(key=[xml, sorted(resources.items())])
                for sig, d in fl:
                    res.fail(sig, {"schema": ast, "resources": resources, "main": MAIN, "mode": mode}, d)
    res.exhaustive_parts.append("for each sampled accepted text: each of %d faulty lines inserted at every line position" % len(EVERY))


def run_shard(spec):
    res = Result()
    counters = collections.Counter()
    if spec.get("every_position"):
        if spec["lo"] == 0:
            fl, n = existing_probe()
            res.evaluations += n
            counters["existing-*-names-that-do-not-exist"] += n
            for sig, d, case in fl:
                res.fail(sig, case, d)
        run_every_position(spec, res, counters)
        for i in range(spec["lo"], spec["hi"]):
            for j in range(8):
                rng = loadcheck.case_rng(spec["seed"] + 8181, i * 8 + j)
                text = gen_section_text(rng)
                resources = None
                if rng.random() < 0.5:
                    resources, _c = gen.cut_includes(rng, text, MAIN, ncuts=rng.choice([1, 2]))
                res.evaluations += 1
                counters["section-datatype-refusals"] += 1
                res.nontrivial(key=["sdt", text, sorted((resources or {}).items())])
                for sig, d in section_datatype_probe(text, resources):
                    res.fail(sig, {"section_text": text, "resources": resources}, d)
        res.counters.update(counters)
        return res
    for i in range(spec["lo"], spec["hi"]):
        rng = loadcheck.case_rng(spec["seed"] + 7777, i)
        ast = gen.gen_schema(rng, value_dts=VALUE_DTS if i % 3 == 0 else None)
        sm = refload.compile_schema(ast)
        try:
            schema, xml = loadcheck.load_schema(ast)
        except Exception:  # noqa
            counters["schema-rejected"] += 1
            continue
        for _t in range(3):
            text = gen.gen_text(rng, sm, 0)
            base = refload.ref_load(ast, {MAIN: text}, MAIN, sm=sm)
            if base.kind != "accept" or not text.strip():
                counters["base-not-accepted"] += 1
                continue
            for _m in range(6):
                kind, mutated = inject(rng, text)
                if kind == "none":
                    continue
                if rng.random() < 0.06:
                    # a very long line somewhere: it is still one line
                    ls = split_lines(mutated)
                    j = rng.randrange(len(ls) + 1)
                    ls.insert(j, rng.choice(["# " + "x" * 20000, "#" + " y" * 35000, "   " * 3000 + "# z"]))
                    mutated = join(ls)
                    counters["very-long-line"] += 1
                if rng.random() < 0.6:
                    resources, cuts = gen.cut_includes(rng, mutated, MAIN)
                else:
                    resources, cuts = {MAIN: mutated}, []
                res.evaluations += 1
                if len(resources) == 1:
                    mode = rng.choice(["mem", "nourl", "files", "fileurl", "override"])
                else:
                    mode = rng.choice(["mem", "files", "files", "override"])
                counters["mode:" + mode] += 1
                ref, got, fl = compare(ast, sm, schema, resources, MAIN, mode)
                counters["inject:" + kind.split("+")[-1]] += 1
                counters["verdict:" + ref.kind] += 1
                if ref.kind == "reject":
                    counters["rule:" + ref.rule + (":promised" if ref.line_promised else ":no-line")] += 1
                    if ref.line_promised:
                        deep = len(resources) > 1 or (ref.lineno or 0) > 3
                        if ref.url is not None and not ref.url.endswith("/main.conf"):
                            counters["fault-in-included-resource"] += 1
                        if deep:
                            res.nontrivial(key=[xml, sorted(resources.items())])
                            if len(res.samples) < 1 and len(resources) > 1:
                                res.sample({"schema_xml": xml, "resources": resources,
                                            "expected": repr(ref)})
                for sig, d in fl:
                    res.fail(sig, {"schema": ast, "resources": resources, "main": MAIN, "mode": mode}, d)
    res.counters.update(counters)
    return res


def check_coverage(tier, c):
    problems = []
    if c.get("fault-in-included-resource", 0) < 100:
        problems.append("fewer than 100 faults inside included resources")
    for r in ("rule:syntax:syntax:promised", "rule:unknown-key:promised", "rule:key-twice:promised",
              "rule:value-conversion:promised", "rule:key-conversion:promised", "rule:unknown-type:promised",
              "rule:missing-key:promised", "rule:slot-twice:promised", "rule:name-reuse:promised",
              "rule:syntax:subst-missing:promised", "rule:syntax:subst-syntax:promised"):
        if c.get(r, 0) < 5:
            problems.append("fault class %s has only %d cases" % (r, c.get(r, 0)))
    return problems
