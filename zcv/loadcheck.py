"""Shared plumbing for the schema-family properties: load generated schemas and texts with the
real ZConfig and compare with zcv.refload."""

import io
import random
import traceback

from zcv import gen, refload

MAIN = "file:///zcv/main.conf"
_SCHEMA_CACHE = {}

# $name / ${name} must never fall back to the process environment: define every name the
# generators reference (in every spelling) there, so that such a fallback would show.
import os as _os
for _n in ("nope", "x", "zd", "Zd", "ZD", "zD", "da", "Db", "dc", "DA", "DB", "DC", "Da", "db", "Dc",
           "a", "A", "b", "B", "c", "C", "d", "other"):
    _os.environ[_n] = "FROM-ENVIRONMENT-" + _n
# a variable that is set and empty, and one that is set to blanks: both have a value
_os.environ["ZCV_EMPTY"] = ""
_os.environ["ZCV_BLANK"] = "  "
_os.environ["Zcv_Mixed"] = "mixed"


def zc():
    import ZConfig
    return ZConfig


def load_schema_xml(xml, url=None):
    ZConfig = zc()
    return ZConfig.loadSchemaFile(io.StringIO(xml), url)


_SHARED = {"loader": None, "n": 0}


def load_schema(ast):
    """Every other schema is loaded through one long-lived SchemaLoader from a file object
    without a URL (two different schemas served by one loader stay two different schemas)."""
    xml = gen.render_schema(ast)
    _SHARED["n"] += 1
    if _SHARED["n"] % 2:
        if _SHARED["loader"] is None:
            import ZConfig.loader
            _SHARED["loader"] = ZConfig.loader.SchemaLoader()
        return _SHARED["loader"].loadFile(io.StringIO(xml)), xml
    return load_schema_xml(xml), xml


def innermost_zconfig_frame(exc):
    tb = traceback.extract_tb(exc.__traceback__)
    last = None
    for fr in tb:
        fn = fr.filename.replace("\\", "/")
        if "/ZConfig/" in fn:
            last = "%s.%s" % (fn.rsplit("/", 1)[1][:-3], fr.name)
    inner = tb[-1]
    innerfn = inner.filename.replace("\\", "/")
    return last or "?", ("%s.%s" % (innerfn.rsplit("/", 1)[1][:-3], inner.name))


def real_load(schema, text, url=MAIN, overrides=()):
    """-> ('ok', config, handler) | ('reject', exc) | ('internal', exc, zconfig_frame, inner_frame)"""
    ZConfig = zc()
    try:
        cfg, handler = ZConfig.loadConfigFile(schema, io.StringIO(text), url, overrides)
        return ("ok", cfg, handler)
    except ZConfig.ConfigurationError as e:
        return ("reject", e)
    except RecursionError as e:
        return ("internal", e, "recursion", "recursion")
    except Exception as e:  # noqa
        zf, inner = innermost_zconfig_frame(e)
        return ("internal", e, zf, inner)


def case_rng(seed, i):
    return random.Random("%d/%d" % (seed, i))


def gen_case(seed, i, **schema_opts):
    """One schema and a handful of texts, deterministic in (seed, i)."""
    rng = case_rng(seed, i)
    ast = gen.gen_schema(rng, **schema_opts)
    sm = refload.compile_schema(ast)
    texts = [gen.gen_text(rng, sm, f) for f in (0, 0, 1, 1, 2, 3)]
    return ast, sm, texts


def schema_features(ast, counters):
    counters["keytype:%s" % (ast.get("keytype") or "basic-key")] += 1
    counters["abstract-types:%d" % len(ast.get("abstract", []))] += 1
    impl = {}
    for t in ast["types"]:
        if t.get("extends"):
            counters["schema:derived-type"] += 1
        if t.get("implements"):
            impl[t["implements"].lower()] = impl.get(t["implements"].lower(), 0) + 1
        if t.get("keytype"):
            counters["schema:type-keytype:%s" % t["keytype"]] += 1
    for a in ast.get("abstract", []):
        counters["implementers:%d" % min(3, impl.get(a, 0))] += 1
    for cont in [ast] + ast["types"]:
        for it in cont["items"]:
            k = it["kind"]
            n = it["name"]
            if k in ("key", "multikey"):
                counters["item:%s%s" % (k, "+" if n == "+" else "")] += 1
                if it.get("default") is not None or it.get("defaults"):
                    counters["item:with-default"] += 1
            else:
                counters["item:%s:%s" % (k, n if n in ("*", "+") else "fixed")] += 1
            if it.get("required"):
                counters["item:required"] += 1


_MEM = {}


def mem_loader_class():
    if "cls" not in _MEM:
        ZConfig = zc()
        import ZConfig.loader

        class MemLoader(ZConfig.loader.ConfigLoader):
            """ConfigLoader serving resources from a dict (documented override: openResource)."""
            resources = None

            def openResource(self, url):
                url = str(url)
                if url not in self.resources:
                    raise ZConfig.ConfigurationError("error opening resource %s: no such resource" % url, url)
                return self.createResource(io.StringIO(self.resources[url]), url)
        _MEM["cls"] = MemLoader
    return _MEM["cls"]


def real_load_resources(schema, resources, main=MAIN, overrides=()):
    """Like real_load, for a set of in-memory resources with %include between them."""
    ZConfig = zc()
    try:
        if overrides:
            from ZConfig import cmdline

            class MemExt(cmdline.ExtendedConfigLoader):
                def openResource(self, url):
                    url = str(url)
                    if url not in resources:
                        raise ZConfig.ConfigurationError("error opening resource %s" % url, url)
                    return self.createResource(io.StringIO(resources[url]), url)
            loader = MemExt(schema)
            for o in overrides:
                loader.addOption(o)
        else:
            loader = mem_loader_class()(schema)
            loader.resources = resources
        cfg, handler = loader.loadURL(main)
        return ("ok", cfg, handler)
    except ZConfig.ConfigurationError as e:
        return ("reject", e)
    except RecursionError as e:
        return ("internal", e, "recursion", "recursion")
    except Exception as e:  # noqa
        zf, inner = innermost_zconfig_frame(e)
        return ("internal", e, zf, inner)


def materialise(resources, main, prefix="file:///zcv/", reuse=False, odd_dir=False):
    """Write in-memory resources to real files under a fresh temporary directory -- or, with
    reuse=True, under one directory per process that every call re-populates, so that the same
    path names carry different contents from one case to the next.

    -> (resources keyed by the real file:/// URLs, real main URL, directory to remove)."""
    import os
    import shutil
    import tempfile
    from urllib.request import pathname2url
    if reuse:
        root = os.path.join(tempfile.gettempdir(), "zcv-fixed-%d" % os.getpid())
        shutil.rmtree(root, ignore_errors=True)
        os.makedirs(root)
    else:
        root = tempfile.mkdtemp(prefix="zcv-files-")
    out = {}
    newmain = None
    base = root
    if odd_dir:
        # every file lives below a directory whose name a URL has to escape (blank, per cent sign)
        base = os.path.join(root, "site conf 100%")
        os.makedirs(base, exist_ok=True)
    for url, text in resources.items():
        assert url.startswith(prefix), url
        rel = url[len(prefix):]
        path = os.path.join(base, *rel.split("/"))
        os.makedirs(os.path.dirname(path), exist_ok=True)
        # a text may name another resource by its absolute URL: that URL moves with the files
        text = text.replace(prefix, "file://" + pathname2url(base) + "/")
        with open(path, "w", encoding="utf-8", newline="\n") as f:
            f.write(text)
        real = "file://" + pathname2url(path)
        out[real] = text
        if url == main:
            newmain = real
    return out, newmain, root


def real_load_url(schema, url, overrides=()):
    ZConfig = zc()
    try:
        cfg, handler = ZConfig.loadConfig(schema, url, overrides)
        return ("ok", cfg, handler)
    except ZConfig.ConfigurationError as e:
        return ("reject", e)
    except RecursionError as e:
        return ("internal", e, "recursion", "recursion")
    except Exception as e:  # noqa
        zf, inner = innermost_zconfig_frame(e)
        return ("internal", e, zf, inner)


def real_load_by_hand(schema, text, url=MAIN):
    """The building blocks of a load used directly: a fresh ConfigLoader as context, a resource
    made from the text, a ZConfigParser driven by hand, the schema matcher finished by hand."""
    ZConfig = zc()
    import ZConfig.cfgparser
    import ZConfig.loader
    try:
        loader = ZConfig.loader.ConfigLoader(schema)
        r = loader.createResource(io.StringIO(text), url)
        try:
            sm = loader.createSchemaMatcher()
            ZConfig.cfgparser.ZConfigParser(r, loader).parse(sm)
            cfg = sm.finish()
        finally:
            r.close()
        return ("ok", cfg, None)
    except ZConfig.ConfigurationError as e:
        return ("reject", e)
    except RecursionError as e:
        return ("internal", e, "recursion", "recursion")
    except Exception as e:  # noqa
        zf, inner = innermost_zconfig_frame(e)
        return ("internal", e, zf, inner)


def real_load_with(loader, text, url=MAIN):
    """Load through an existing loader object (to exercise several loads by one loader)."""
    ZConfig = zc()
    try:
        cfg, handler = loader.loadFile(io.StringIO(text), url)
        return ("ok", cfg, handler)
    except ZConfig.ConfigurationError as e:
        return ("reject", e)
    except RecursionError as e:
        return ("internal", e, "recursion", "recursion")
    except Exception as e:  # noqa
        zf, inner = innermost_zconfig_frame(e)
        return ("internal", e, zf, inner)
