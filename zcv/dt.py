"""Importable datatype functions for generated schemas (referenced as zcv.dt.<name>)."""


class Wrapped:
    """What the section datatype 'zcv.dt.wrap' returns: makes 'applied exactly once' visible."""

    def __init__(self, value):
        self.value = value

    def __repr__(self):
        return "Wrapped(%r)" % (self.value,)


def wrap(value):
    return Wrapped(value)


def wrap2(value):
    # a second, distinguishable section datatype
    w = Wrapped(value)
    w.kind = 2
    return w


def reject(value):
    raise ValueError("zcv.dt.reject refuses %r" % (value,))


class Boom(Exception):
    """A non-ValueError raised by a datatype function (passes through unchanged)."""


def boom(value):
    raise Boom("zcv.dt.boom")


def evenint(value):
    v = int(value)
    if v % 2:
        raise ValueError("odd")
    return v


_INNER = {}
INNER_SCHEMA = ('<schema><key name="k" datatype="integer" default="1"/><sectiontype name="s"><key name="v"/>'
                '</sectiontype><multisection name="*" type="s" attribute="ss"/></schema>')


def reentrant(value):
    """The identity on strings -- computed by using ZConfig while ZConfig is using this function:
    one nested load that succeeds (with a %define of a name the outer texts define too, and a
    section) and one that is refused half-way through."""
    import io
    import ZConfig
    if _INNER.get("owner") is not ZConfig:
        _INNER["owner"] = ZConfig
        _INNER["schema"] = ZConfig.loadSchemaFile(io.StringIO(INNER_SCHEMA))
    cfg, _ = ZConfig.loadConfigFile(_INNER["schema"], io.StringIO("%define zd 7\nk $zd\n<s a>\n v x\n</s>\n"))
    if cfg.k != 7 or cfg.ss[0].v != "x":
        raise RuntimeError("zcv.dt.reentrant: nested load gave k=%r" % (cfg.k,))
    try:
        ZConfig.loadConfigFile(_INNER["schema"], io.StringIO("%define zd 8\nk nope\n<s a>\n"))
    except ZConfig.ConfigurationError:
        pass
    if HOOK is not None:
        HOOK(value)
    return value


# set by a check: called while a module that a generated schema names as datatype is imported
SCHEMA_HOOK = None

# set by a check for the duration of one load: called from inside zcv.dt.reentrant, i.e. while
# that load is suspended in a conversion (the hook records what it sees; it never raises)
HOOK = None


def nested(value):
    """A datatype built on ZConfig itself: it refuses a value the way ZConfig's own machinery
    would -- with a DataConversionError (a ValueError like any other) that speaks of some
    other text at some other place."""
    try:
        return evenint(value)
    except ValueError as e:
        import ZConfig
        raise ZConfig.DataConversionError(e, "inner text", (4711, None, "file:///zcv/inner/elsewhere.conf"))


COUNTER = {"n": 0, "fail_at": None, "exc": None, "calls": []}


def counting(value):
    """string conversion that counts its calls and can be told to fail at the k-th (C19)."""
    COUNTER["n"] += 1
    COUNTER["calls"].append(value)
    if COUNTER["fail_at"] is not None and COUNTER["n"] == COUNTER["fail_at"]:
        raise COUNTER["exc"]("zcv.dt.counting: injected failure at call %d" % COUNTER["n"])
    if HOOK is not None:
        HOOK(value)
    return value


def counting_section(value):
    COUNTER["n"] += 1
    COUNTER["calls"].append("<section>")
    if COUNTER["fail_at"] is not None and COUNTER["n"] == COUNTER["fail_at"]:
        raise COUNTER["exc"]("zcv.dt.counting_section: injected failure at call %d" % COUNTER["n"])
    return value


def reset_counter(fail_at=None, exc=None):
    COUNTER["n"] = 0
    COUNTER["fail_at"] = fail_at
    COUNTER["exc"] = exc
    COUNTER["calls"] = []


def basickey(value):
    """A key type living at a dotted name (for prefix tests): same contract as basic-key."""
    v = str(value)
    ok = v[:1].isascii() and v[:1].isalpha() and all(c.isascii() and (c.isalnum() or c in "-._") for c in v)
    if not ok:
        raise ValueError("not a basic key: %r" % (value,))
    return v.lower()


def picky_nested(value):
    """Like picky, but built on ZConfig itself: the refusal is ZConfig's own DataConversionError
    (a ValueError like any other) that speaks of some other text at some other place."""
    try:
        return picky(value)
    except ValueError as e:
        import ZConfig
        raise ZConfig.DataConversionError(e, "inner text", (4711, None, "file:///zcv/inner/elsewhere.conf"))


def picky(value):
    """Section datatype that refuses a section holding the string REJECTME (a fault at the
    section-datatype stage that a text can switch on)."""
    for a in value.getSectionAttributes():
        v = getattr(value, a)
        if v == "REJECTME" or (isinstance(v, list) and "REJECTME" in v):
            raise ValueError("picky section datatype refuses this section")
    return Wrapped(value)


class Methods:
    """The same functions reached as bound methods: a dotted datatype name may end in a classmethod,
    and then every look-up of the name yields a new (equal, not identical) object."""

    @classmethod
    def basickey(cls, value):
        return basickey(value)

    @classmethod
    def wrap(cls, value):
        return wrap(value)

    @classmethod
    def evenint(cls, value):
        return evenint(value)
