"""A second namespace of datatype functions (referenced as zcv.dtalt.<name>) whose names
coincide with those of zcv.dt but whose behaviour differs, so that one relative name ('.wrap',
'.evenint') means different functions under different prefixes (C11)."""

from zcv.dt import Wrapped


def wrap(value):
    # distinguishable from zcv.dt.wrap: behaves like zcv.dt.wrap2
    w = Wrapped(value)
    w.kind = 2
    return w


def wrap2(value):
    return Wrapped(value)


def evenint(value):
    # accepts exactly the ODD integers and returns them negated
    v = int(value)
    if v % 2 == 0:
        raise ValueError("even")
    return -v
