"""Generators: the schema family S1 (as a plain-data AST + XML renderer) and schema-guided
configuration texts S2.  All random choices come from the random.Random instance passed in
(seeded from VERIF_SEED by the callers); cases are plain data so that replay files and the
structural shrinker never depend on the generator.
"""

from xml.sax.saxutils import escape, quoteattr

from zcv import refload

KEYTYPES = ["basic-key", "identifier", "ipaddr-or-hostname"]
NAME_POOL = {
    "basic-key": ["alpha", "Beta-2", "gamma.x", "delta_y", "eps", "Zeta", "eta-a-b", "class", "Pass", "t1", "T2"],
    "identifier": ["alpha", "Beta", "gamma_x", "delta_y", "eps", "zeta", "import", "None", "t1", "t2"],
    "ipaddr-or-hostname": ["alpha", "beta-2", "gamma.x", "delta_y", "eps", "10.0.0.1", "eta-a-b", "lambda", "t1", "t2"],
}
PLAIN_NAMES = ("alpha", "eps", "zeta")           # fixed points of every key type
FREE_KEYS = {
    "basic-key": ["kx", "Ky", "kz-1", "K.W", "alpha", "n1"],
    "identifier": ["kx", "Ky", "kz_1", "KW", "alpha", "n1"],
    "ipaddr-or-hostname": ["kx", "Ky", "kz-1", "k.w", "10.1.2.3", "alpha", "n1"],
}
BAD_KEYS = {
    "basic-key": ["1x", "_y", "a/b", "+", "*"],
    "identifier": ["1x", "a-b", "a.b", "+", "*"],
    "ipaddr-or-hostname": ["1x", "300.1.1.1", "a/b", "x!", "+", "*"],
}
SECTION_NAMES = ["n1", "n2", "N3", "alpha", "Beta", "Stra\u00dfe", "STRASSE", "\u039f\u0394\u039f\u03a3", "/Dir/", "a>b", "Z\u00fcrich", "\u00c5rhus", "t1", "T2", "eps"]

GOOD = {
    "string": ["v", "two words", "x=1", "(p)", "<q>", "# not a comment", "é", "col1\tcol2", "a \t b",
               "C:\\spool\\", "\\", "alpha", "t1", "eps v", "n1", "yes", "12"],
    "integer": ["12", "-3", "0", "+7", "1_000", "9007199254740993"],
    "boolean": ["yes", "No", "TRUE", "off", "On", "false"],
    "float": ["1.5", "1e3", "-0.25", "7"],
    "port-number": ["80", "65535", "0"],
    "byte-size": ["10kb", "2MB", "5", "1Gb", "9007199254740993", "18014398509481985kb"],
    "time-interval": ["10s", "2H", "5", "3d", "4m", "9007199254740993", "36028797018963969d"],
    "identifier": ["abc_1", "_x", "ABC"],
    "basic-key": ["Abc-1", "x.y", "Q"],
    "string-list": ["a b  c", "one", "x\ty"],
    "inet-address": ["host:80", "80", "[::1]:80", "Host.Example", "1.2.3.4:1", "[FE80::1:2]:8080", "FE80::A"],
    "null": ["anything", "x y"],
    "zcv.dt.evenint": ["2", "40", "-6"],
    "zcv.dt.Methods.evenint": ["2", "40", "-6"],
    "zcv.dt.reentrant": ["v", "two words", "x=1", "<q>", "alpha", "12"],
    "zcv.dt.nested": ["2", "40", "-6"],
    "zcv.dtalt.evenint": ["3", "41", "-7"],
}
BAD = {
    "integer": ["abc", "0x10", "1.5", "1 2"],
    "boolean": ["maybe", "1", "ye"],
    "float": ["x", "1.2.3", "e5"],
    "port-number": ["65536", "-1", "http"],
    "byte-size": ["5tb", "kb", "1.5mb"],
    "time-interval": ["5x", "s", "1.5h"],
    "identifier": ["1abc", "a-b", "a b"],
    "basic-key": ["1a", "_a", "a b"],
    "inet-address": ["host:99999", "host:x", "a b"],
    "zcv.dt.evenint": ["3", "x"],
    "zcv.dt.Methods.evenint": ["3", "x"],
    "zcv.dt.nested": ["3", "x"],
    "zcv.dtalt.evenint": ["4", "x"],
}
# values that can only be written as the text of a <default> element (characters that the XML
# renderer turns into entity references, with blanks between them; line breaks inside the text)
DEFAULT_ONLY = {
    "string": ["< >", "a && b", "p\nq", "x\t<y>", "&amp; &lt;", "<\n>"],
    "null": ["< >", "l1\nl2"],
    "string-list": ["alpha\nbeta", "a\n\nb c", "<a> <b>", "& &"],
}


def default_value(rng, dt):
    if dt in DEFAULT_ONLY and rng.random() < 0.3:
        v = rng.choice(DEFAULT_ONLY[dt])
    else:
        v = rng.choice(GOOD[dt])
    if rng.random() < 0.08:
        # blanks around a default are not part of it (attribute and element text alike)
        v = rng.choice([" ", "\t", "  "]) + v + rng.choice(["", " ", " \n"])
    return v


KEY_DATATYPES = ["string", "string", "integer", "boolean", "float", "port-number", "byte-size",
                 "time-interval", "identifier", "basic-key", "string-list", "inet-address",
                 "null", "integer", "zcv.dt.reentrant"]


def mixcase(rng, s):
    mode = rng.randrange(4)
    if mode == 0:
        return s
    if mode == 1:
        return s.upper()
    if mode == 2:
        return s.lower()
    return "".join(c.upper() if rng.random() < 0.5 else c.lower() for c in s)


# ------------------------------------------------------------------ schema AST


def gen_schema(rng, handlers=False, max_types=5, section_dts=("zcv.dt.wrap",),
               value_dts=None, allow_required_defaults=None, keytypes=None, derive_bias=0.3, boost=0.1):
    """-> AST dict (see module docstring of zcv.refload for the reading of it)."""
    if allow_required_defaults is None:
        # zone U4 (required items that also carry <default> elements) in one schema out of seven
        allow_required_defaults = rng.random() < 0.15
    value_dts = value_dts or KEY_DATATYPES
    keytypes = keytypes or KEYTYPES
    ast = {"keytype": None, "datatype": None, "handler": None, "abstract": [], "types": [],
           "items": []}
    r = rng.random()
    if r > 0.7:
        ast["keytype"] = keytypes[1 % len(keytypes)] if r < 0.85 else keytypes[-1]
    if rng.random() < 0.3:
        ast["datatype"] = rng.choice(section_dts)
    if handlers and rng.random() < 0.5:
        ast["handler"] = mixcase(rng, "h-top")
    for i in range(rng.choice([0, 0, 1, 1, 2, 3])):
        ast["abstract"].append("abs%d" % (i + 1))
    ntypes = rng.randint(1, max_types)
    info = {}          # type name -> dict(kt, names:set, attrs:set, plain:bool, chain:int)
    hcount = [0]

    def effective_kt(t):
        return info[t["name"]]["kt"]

    # a quarter of the schemas name their types so that case FOLDING (not lower-casing) would
    # equate other spellings with them: 'ss1' ~ U+00DF '1', 's' ~ U+017F
    stem = rng.choice(["t", "t", "t", "ss"])
    for i in range(ntypes):
        t = {"name": "%s%d" % (stem, i + 1), "keytype": None, "datatype": None, "implements": None,
             "extends": None, "items": []}
        base = None
        if ast["types"] and rng.random() < derive_bias:
            cand = [b for b in ast["types"] if info[b["name"]]["chain"] < 3]
            withwild = [b for b in cand if info[b["name"]]["haswild"]]
            if withwild and derive_bias > 0.3:
                cand = withwild + cand[:1]
            if cand:
                base = rng.choice(cand)
                t["extends"] = mixcase(rng, base["name"])
        kt = info[base["name"]]["kt"] if base else "basic-key"
        if rng.random() < (0.3 if base is None else derive_bias):
            newkt = rng.choice(keytypes)
            if base is None or (info[base["name"]]["plain"] and _rekeyable(info[base["name"]]["wildkeys"], newkt)):
                t["keytype"] = newkt
                kt = newkt
        if rng.random() < 0.4:
            t["datatype"] = rng.choice(section_dts)
        if ast["abstract"] and rng.random() < 0.55:
            t["implements"] = mixcase(rng, rng.choice(ast["abstract"]))
        names = set(info[base["name"]]["names"]) if base else set()
        attrs = set(info[base["name"]]["attrs"]) if base else set()
        haswild = info[base["name"]]["haswild"] if base else False
        avail = [x["name"] for x in ast["types"]] + list(ast["abstract"])
        t["items"], haswild = gen_items(rng, kt, names, attrs, avail, rng.choice([0, 1, 2, 2, 3, 4]),
                                        handlers, hcount, value_dts, haswild,
                                        allow_required_defaults)
        plain = (info[base["name"]]["plain"] if base else True) and all(
            it["name"] in ("+", "*") or it["name"] in PLAIN_NAMES for it in t["items"])
        wildkeys = list(info[base["name"]]["wildkeys"]) if base else []
        for it in t["items"]:
            if it["name"] == "+":
                wildkeys.append([d[0] for d in it.get("defaults") or []])
        info[t["name"]] = {"kt": kt, "names": names, "attrs": attrs, "plain": plain, "wildkeys": wildkeys,
                           "chain": (info[base["name"]]["chain"] + 1) if base else 1,
                           "haswild": haswild}
        ast["types"].append(t)
    topkt = ast["keytype"] or "basic-key"
    avail = [x["name"] for x in ast["types"]] + list(ast["abstract"])
    ast["items"], _ = gen_items(rng, topkt, set(), set(), avail, rng.choice([1, 2, 3, 3, 4, 5]),
                                handlers, hcount, value_dts, False, allow_required_defaults,
                                prefer_sections=True)
    prune_ambiguous(ast, rng)
    if rng.random() < boost:
        boost_rekey(rng, ast)
    return ast


def boost_rekey(rng, ast):
    """Make the 'wildcard defaults re-keyed under a derived key type' clause occur: a base type
    with keyed defaults written in mixed case, a type derived from it (chain 2 or 3) with a
    different key type, and top-level slots for both."""
    kts = [k for k in ("basic-key", "ipaddr-or-hostname", "identifier") ]
    bkt = rng.choice(kts)
    dkt = rng.choice([k for k in ("identifier", "basic-key") if k != bkt])
    multi = rng.random() < 0.5
    keys = rng.sample(["Ky", "KZ", "kx", "Mixed_Case", "UP"], rng.choice([1, 2, 3]))
    if bkt != "identifier":
        keys = [k for k in keys if "_" not in k] or ["Ky"]
    defaults = []
    for k in keys:
        for _ in range(2 if multi and rng.random() < 0.5 else 1):
            defaults.append([k, rng.choice(["v", "w", "two words", "7"])])
    wild = {"kind": "multikey" if multi else "key", "name": "+", "attribute": "wildb", "required": False,
            "handler": None, "datatype": rng.choice(["string", "string", "integer"]) if all(d[1] == "7" for d in defaults) else "string",
            "defaults": defaults}
    ast["types"].append({"name": "tbb", "keytype": None if bkt == "basic-key" else bkt, "datatype": None,
                         "implements": None, "extends": None, "items": [wild]})
    mid = "tbb"
    if rng.random() < 0.4:
        ast["types"].append({"name": "tbm", "keytype": None, "datatype": rng.choice([None, "zcv.dt.wrap"]),
                             "implements": None, "extends": "Tbb", "items": [
                                 {"kind": "key", "name": "alpha", "attribute": None, "required": False,
                                  "handler": None, "datatype": "string", "default": "d"}]})
        mid = "tbm"
    ast["types"].append({"name": "tdd", "keytype": dkt, "datatype": None, "implements": None,
                         "extends": mid, "items": []})
    ast["items"].append({"kind": "multisection", "name": "*", "attribute": "boosted", "required": False,
                         "handler": None, "type": "tdd"})
    ast["items"].append({"kind": "multisection", "name": "*", "attribute": "boostedbase", "required": False,
                         "handler": None, "type": "tbb"})


def prune_ambiguous(ast, rng, keep=0.08):
    """Drop most wildcard section slots that would fit a type another wildcard slot of the same
    container already fits (zone U2), and relax required slots nothing can fill."""
    impl = {}
    for t in ast["types"]:
        if t.get("implements"):
            impl.setdefault(t["implements"].lower(), set()).add(t["name"].lower())

    def fitting(it):
        st = it["type"].lower()
        return impl.get(st, set()) if st in [a.lower() for a in ast["abstract"]] else {st}
    covered_by_type = {}
    for cont in ast["types"] + [ast]:
        base = cont.get("extends")
        covered = set(covered_by_type.get(base.lower(), set())) if base else set()
        kept = []
        for it in cont["items"]:
            if it["kind"] in ("section", "multisection"):
                f = fitting(it)
                if not f and it.get("required") and rng.random() > keep:
                    it["required"] = False
                if f & covered and rng.random() > keep:
                    continue
                covered |= f
            kept.append(it)
        cont["items"] = kept
        if cont is not ast:
            covered_by_type[cont["name"].lower()] = covered


def _rekeyable(groups, kt):
    for keys in groups:
        seen = set()
        for k in keys:
            try:
                n = refload.norm_key(kt, k)
            except Exception:
                return False
            if n is None:
                return False
            seen.add(n)
        if len(seen) != len(set(keys)):
            return False
    return True


def gen_items(rng, kt, names, attrs, avail_types, n, handlers, hcount, value_dts, haswild,
              allow_required_defaults, prefer_sections=False):
    items = []
    used_types = set()
    for _ in range(n):
        r = rng.random()
        if prefer_sections and avail_types and r < 0.5:
            kind = rng.choice(["section", "multisection"])
        elif r < 0.35:
            kind = "key"
        elif r < 0.5:
            kind = "multikey"
        elif r < 0.62:
            kind = "wild"
        elif r < 0.85:
            kind = "section"
        else:
            kind = "multisection"
        if kind in ("section", "multisection") and not avail_types:
            kind = "key"
        if kind == "wild" and haswild:
            kind = "key"
        it = {"kind": kind, "name": None, "attribute": None, "required": rng.random() < 0.3,
              "handler": None}
        if handlers and rng.random() < 0.5:
            hcount[0] += 1
            it["handler"] = mixcase(rng, "h%d" % rng.randint(1, max(2, hcount[0])))
            if rng.random() < 0.15:
                it["handler"] = mixcase(rng, rng.choice(["alpha", "eps", "t1", "h-top"]))    # a name that is also something else
        if kind == "wild":
            haswild = True
            it["kind"] = rng.choice(["key", "multikey"])
            it["name"] = "+"
            it["attribute"] = _fresh_attr(rng, attrs, "wild")
            it["datatype"] = rng.choice(value_dts)
            if not it["required"] or allow_required_defaults:
                pool = [k for k in FREE_KEYS[kt] if k.lower() not in names]
                rng.shuffle(pool)
                seen = set()
                d = []
                for k in pool[:rng.choice([0, 0, 1, 2])]:
                    if k.lower() in seen:
                        continue
                    seen.add(k.lower())
                    for _j in range(rng.choice([1, 1, 2]) if it["kind"] == "multikey" else 1):
                        d.append([k, default_value(rng, it["datatype"])])
                    if it["kind"] == "multikey" and kt != "identifier" and k.swapcase() != k and rng.random() < 0.4:
                        # a second spelling of the same key right after the first: one normalised key,
                        # values in declaration order
                        for _j in range(rng.choice([1, 1, 2])):
                            d.append([k.swapcase(), default_value(rng, it["datatype"])])
                it["defaults"] = d
            items.append(it)
            continue
        if kind in ("key", "multikey"):
            nm = _fresh_name(rng, kt, names)
            if nm is None:
                continue
            it["name"] = nm
            it["datatype"] = rng.choice(value_dts)
            _attr_for(rng, it, attrs)
            if kind == "key":
                if not it["required"] and rng.random() < 0.5:
                    it["default"] = default_value(rng, it["datatype"])
                    if it["datatype"] in ("string", "string-list", "null") and rng.random() < 0.25:
                        it["default"] = ""
            else:
                if not it["required"] or allow_required_defaults:
                    it["defaults"] = [default_value(rng, it["datatype"])
                                      for _j in range(rng.choice([0, 0, 1, 2]))]
            items.append(it)
            continue
        # sections
        cand = [t for t in avail_types if t not in used_types] or avail_types
        tname = rng.choice(cand)
        used_types.add(tname)
        it["type"] = mixcase(rng, tname)
        if kind == "multisection":
            it["name"] = rng.choice(["*", "*", "+"])
        else:
            it["name"] = rng.choice(["*", "*", "+", "fixed", "fixed"])
        if it["name"] == "fixed":
            nm = _fresh_name(rng, kt, names)
            if nm is None:
                it["name"] = "*"
            else:
                it["name"] = nm
                _attr_for(rng, it, attrs)
        if it["name"] in ("*", "+"):
            it["attribute"] = _fresh_attr(rng, attrs, "sec")
        items.append(it)
    return items, haswild


def _fold_variants(types):
    """Spellings that only case folding (not lower-casing) equates with a type name."""
    out = []
    for t in sorted(types):
        if "ss" in t:
            out += [t.replace("ss", "\u00df", 1), t.replace("s", "\u017f", 1), t.upper().replace("SS", "\u1e9e", 1)]
    return [v for v in out if v.lower() not in types]


def _fresh_name(rng, kt, names):
    pool = [n for n in NAME_POOL[kt] if _normkey(kt, n) not in names]
    if not pool:
        return None
    n = rng.choice(pool)
    names.add(_normkey(kt, n))
    if kt != "identifier":
        n = mixcase(rng, n)
    return n


def _normkey(kt, n):
    return n if kt == "identifier" else n.lower()


ATTR_WORDS = ["type", "name", "value", "values", "keys", "items", "data", "attributes", "matcher", "definition",
              "section", "sections", "handlers", "schema", "id", "default", "children", "parent", "url", "lineno"]


def _fresh_attr(rng, attrs, stem):
    # attribute names are Python identifiers: also a leading / trailing underscore and capitals
    r = rng.random()
    if r > 0.9:
        # everyday words an object might want for itself (none is a method of a section value)
        free = [w for w in ATTR_WORDS if w not in attrs]
        if free:
            a = rng.choice(free)
            attrs.add(a)
            return a
    if r < 0.12:
        stem = "_" + stem
    elif r < 0.18:
        stem = stem.capitalize()
    elif r < 0.22:
        stem = stem + "_"
    i = 1
    while True:
        a = "%s%d" % (stem, i)
        if a not in attrs:
            attrs.add(a)
            return a
        i += 1


def _attr_for(rng, it, attrs):
    derived = refload.derive_attr(it["name"])
    if derived is None or derived in attrs or rng.random() < 0.25:
        it["attribute"] = _fresh_attr(rng, attrs, "at")
    else:
        attrs.add(derived)


# ------------------------------------------------------------------ XML rendering


def _attrs(pairs):
    return "".join(" %s=%s" % (k, quoteattr(v)) for k, v in pairs if v is not None)


def render_item(it, indent="  "):
    kind = it["kind"]
    pairs = [("name", it["name"])]
    if kind in ("section", "multisection"):
        pairs.append(("type", it["type"]))
    else:
        pairs.append(("datatype", it.get("datatype")))
    pairs.append(("attribute", it.get("attribute")))
    if it.get("required"):
        pairs.append(("required", "yes"))
    pairs.append(("handler", it.get("handler")))
    if kind == "key" and it["name"] != "+" and it.get("default") is not None:
        pairs.append(("default", it["default"]))
    body = []
    if it.get("description"):
        body.append("%s  <description>%s</description>" % (indent, escape(it["description"])))
    for d in it.get("defaults") or []:
        if isinstance(d, (list, tuple)):
            body.append("%s  <default key=%s>%s</default>" % (indent, quoteattr(d[0]), escape(d[1])))
        else:
            body.append("%s  <default>%s</default>" % (indent, escape(d)))
    if body:
        return "%s<%s%s>\n%s\n%s</%s>" % (indent, kind, _attrs(pairs), "\n".join(body), indent, kind)
    return "%s<%s%s/>" % (indent, kind, _attrs(pairs))


def render_type(t, indent="  "):
    pairs = [("name", t["name"]), ("extends", t.get("extends")), ("implements", t.get("implements")),
             ("keytype", t.get("keytype")), ("datatype", t.get("datatype")),
             ("prefix", t.get("prefix"))]
    lines = ["%s<sectiontype%s>" % (indent, _attrs(pairs))]
    for it in t.get("items", []):
        lines.append(render_item(it, indent + "  "))
    lines.append("%s</sectiontype>" % indent)
    return "\n".join(lines)


def render_schema(ast, root="schema"):
    pairs = [("keytype", ast.get("keytype")), ("datatype", ast.get("datatype")),
             ("handler", ast.get("handler")), ("prefix", ast.get("prefix")),
             ("extends", ast.get("extends_urls"))]
    lines = ["<%s%s>" % (root, _attrs(pairs))]
    if ast.get("imports_after_abstract"):
        # the imported components implement abstract types of this document: declare those first
        for a in ast.get("abstract", []):
            lines.append("  <abstracttype name=%s/>" % quoteattr(a))
    for p in ast.get("imports", []):
        if isinstance(p, (list, tuple)):
            lines.append("  <import package=%s file=%s/>" % (quoteattr(p[0]), quoteattr(p[1])))
        else:
            lines.append("  <import package=%s/>" % quoteattr(p))
    for src in ast.get("import_srcs", []):
        lines.append("  <import src=%s/>" % quoteattr(src))
    for a in ([] if ast.get("imports_after_abstract") else ast.get("abstract", [])):
        lines.append("  <abstracttype name=%s/>" % quoteattr(a))
    for t in ast.get("types", []):
        lines.append(render_type(t))
    for it in ast.get("items", []):
        lines.append(render_item(it))
    lines.append("</%s>" % root)
    return "\n".join(lines) + "\n"


# ------------------------------------------------------------------ configuration texts


class TextGen:
    """Schema-guided text generator.

    ``faults`` is the (approximate) number of deviations wanted in the text: a dry run counts
    the decision sites, then each site deviates with probability faults * weight / sites.
    ``budget`` bounds the number of lines: once it is used up only required items are written.
    """

    def __init__(self, rng, sm, faults=0, maxdepth=2, layout=True, budget=30):
        self.rng = rng
        self.sm = sm
        self.f = faults
        self.maxdepth = maxdepth
        self.layout = layout
        self.budget = budget
        self.emitted = 0
        self.sites = 0
        self.rate = 0.0

    def p(self, base):
        self.sites += 1
        return self.rng.random() < self.rate * (base / 0.04)

    def tight(self):
        return self.emitted >= self.budget

    def value(self, dt):
        rng = self.rng
        if dt in BAD and self.p(0.04):
            return rng.choice(BAD[dt])
        if rng.random() < 0.04:
            return ""                      # absent value: empty string
        return rng.choice(GOOD.get(dt, GOOD["string"]))

    def keytext(self, kt, name):
        if kt == "identifier":
            if self.p(0.03):
                return name.swapcase()
            return name
        return mixcase(self.rng, name)

    def keyline(self, kt, name, dt):
        if dt in ("string", "null") and self.rng.random() < 0.04:
            # a value that begins with a parenthesis needs no blank after the key: the key ends
            # where the parenthesis begins
            return "%s%s" % (self.keytext(kt, name), self.rng.choice(["(a b)", "(x", ")y z", "(status >= 500)"]))
        return "%s %s" % (self.keytext(kt, name), self.value(dt))

    def types_for(self, slot):
        sm = self.sm
        st = slot.type.lower()
        if st in sm.abstract:
            return list(sm.abstract[st])
        return [st]

    def body(self, C, depth):
        rng = self.rng
        blocks = []
        self.names_free = None
        free = list(SECTION_NAMES)
        rng.shuffle(free)
        for it in C.items:
            if it.is_section():
                if it.kind == "section":
                    n = 1 if rng.random() < (0.9 if it.required else 0.5) else 0
                    if self.tight():
                        n = 1 if it.required else 0
                    if n and self.p(0.05):
                        n = 2
                else:
                    n = rng.choice([0, 1, 1, 2, 3]) if not it.required else rng.choice([1, 1, 2, 3])
                    if self.tight():
                        n = 1 if it.required else 0
                    if it.required and self.p(0.08):
                        n = 0
                if n and not self.types_for(it) and not self.p(0.04):
                    n = 0          # abstract slot without implementers: nothing can fill it
                for _ in range(n):
                    blocks.append(self.section(it, depth, free))
            elif it.wild:
                n = rng.choice([0, 0, 1, 2, 3])
                if self.tight():
                    n = 0
                if it.required and n == 0 and not self.p(0.1):
                    # a required map is normally filled; when it also carries defaults (zone U4)
                    # leave it empty more often: defaults must not satisfy the requirement
                    if not (it.rawdefaults and rng.random() < 0.5):
                        n = 1
                pool = list(FREE_KEYS[C.kt])
                for _ in range(n):
                    k = rng.choice(pool)
                    if self.p(0.02):
                        k = rng.choice(BAD_KEYS[C.kt])
                    reps = 1
                    if it.kind == "multikey" and rng.random() < 0.3:
                        reps = 2
                    for _j in range(reps):
                        blocks.append([self.keyline(C.kt, k, it.dt)])
            elif it.kind == "key":
                n = 1 if rng.random() < (0.97 if it.required else 0.5) else 0
                if self.tight():
                    n = 1 if it.required else 0
                if it.required and n == 1 and self.p(0.08):
                    n = 0
                if n and self.p(0.04):
                    n = 2
                for _ in range(n):
                    blocks.append([self.keyline(C.kt, it.name, it.dt)])
            else:
                n = rng.choice([0, 1, 2, 3]) if not it.required else rng.choice([1, 1, 2, 3])
                if self.tight():
                    n = 1 if it.required else 0
                if it.required and self.p(0.08):
                    n = 0
                for _ in range(n):
                    blocks.append([self.keyline(C.kt, it.name, it.dt)])
        if self.p(0.04):
            blocks.append(["%s v" % rng.choice(["nosuchkey", "Other-Key"] + FREE_KEYS[C.kt][:2])])
        if self.p(0.02):
            blocks.append(["%s x" % rng.choice(BAD_KEYS[C.kt])])
        if self.p(0.03) and self.sm.types:
            t = rng.choice(sorted(self.sm.types) + ["nosuchtype"] + sorted(self.sm.abstract) + _fold_variants(self.sm.types))
            blocks.append(["<%s%s/>" % (t, rng.choice(["", " n1", " zz"]))])
        rng.shuffle(blocks)
        lines = []
        for b in blocks:
            lines.extend(b)
        self.emitted += sum(1 for b in blocks if len(b) == 1)
        return lines

    def pick_name(self, free):
        # an unused name of this container, unless a reuse fault is wanted
        if free and not self.p(0.04):
            return free.pop()
        return self.rng.choice(SECTION_NAMES)

    def section(self, slot, depth, free):
        rng = self.rng
        types = self.types_for(slot)
        if not types or self.p(0.04):
            tname = rng.choice(sorted(self.sm.types) + sorted(self.sm.abstract) + ["nosuchtype"] + _fold_variants(self.sm.types))
        else:
            tname = rng.choice(types)
        if slot.wild:
            if slot.name == "+":
                name = self.pick_name(free)
                if self.p(0.06):
                    name = None
            else:
                name = None if rng.random() < 0.4 else self.pick_name(free)
            if self.p(0.015):
                name = rng.choice(["*", "+"])
        else:
            name = slot.name
            if self.p(0.05):
                name = rng.choice([None] + SECTION_NAMES)
        C = self.sm.types.get(tname)
        inner = []
        if C is not None and depth < self.maxdepth:
            inner = self.body(C, depth + 1)
        elif C is not None:
            # at the depth bound: fill only required plain keys so that deep texts can be valid
            for it in C.items:
                if it.required and not it.is_section() and not it.wild:
                    inner.append(self.keyline(C.kt, it.name, it.dt))
                elif it.required and not it.is_section() and it.wild:
                    inner.append("%s %s" % (FREE_KEYS[C.kt][0], self.value(it.dt)))
                elif it.required and it.is_section() and depth < self.maxdepth + 3 and self.types_for(it):
                    inner.extend(self.section(it, depth + 1, list(SECTION_NAMES)))
        self.emitted += 2
        tt = mixcase(rng, tname)
        nn = (" " + mixcase(rng, name)) if name else ""
        if not inner and rng.random() < 0.5:
            return ["<%s%s%s/>" % (tt, nn, rng.choice(["", " "]))]
        close = mixcase(rng, tname)
        if self.p(0.01):
            close = "nosuchtype"
        # a name ending in '/' must be kept away from the closing '>' (else it is the empty form)
        gap = " " if nn.endswith("/") else ""
        return ["<%s%s%s>" % (tt, nn, gap)] + ["  " + l for l in inner] + ["</%s>" % close]

    def text(self):
        rng = self.rng
        lines = self.body(self.sm.top, 0)
        if self.layout:
            out = []
            for l in lines:
                if rng.random() < 0.05:
                    out.append(rng.choice(["", "# comment", "  ", "#<x>", "# page\x0cbreak", "#\u2028x", "# a\x85b\rc"]))
                out.append(l + (rng.choice(["  ", "\t"]) if rng.random() < 0.05 else ""))
            lines = out
            if rng.random() < 0.15:
                # a definition and a use, so that substitution takes part
                for i, l in enumerate(lines):
                    parts = l.strip().split(None, 1)
                    if len(parts) == 2 and not parts[0].startswith(("<", "#", "%")) and "$" not in parts[1]:
                        lines[i] = l.replace(parts[1], "$Zd", 1) if rng.random() < 0.5 else l.replace(parts[1], "${zd}", 1)
                        lines.insert(0, "%%define ZD %s" % parts[1])
                        if rng.random() < 0.3:
                            # a second name defined twice with the same text, through a reference
                            d2 = "%%define Zd2 %s" % rng.choice(["a$Zd", "${zd}/x", "$ZD"])
                            lines.insert(1, d2)
                            lines.insert(rng.randrange(2, len(lines) + 1), d2 if rng.random() < 0.6 else d2.replace("Zd2", "ZD2"))
                        break
            if rng.random() < 0.12:
                # references to environment variables that are set -- to nothing, to blanks, to a word
                for i, l in enumerate(lines):
                    parts = l.strip().split(None, 1)
                    if len(parts) == 2 and not parts[0].startswith(("<", "#", "%")) and rng.random() < 0.5:
                        ref = rng.choice(["$(ZCV_EMPTY)", "$(ZCV_EMPTY)", "$(ZCV_BLANK)", "$(Zcv_Mixed)"])
                        lines[i] = l + ref if rng.random() < 0.7 else l.replace(parts[1], ref + parts[1], 1)
                        break
        if self.p(0.04):
            lines.insert(rng.randrange(len(lines) + 1), rng.choice(["<", "</x", "%foo x", "(v", "<a b c>", "k $nope"]))
        return "".join(l + "\n" for l in lines)


def gen_text(rng, sm, faults=None, **kw):
    if faults is None:
        faults = rng.choice([0, 0, 1, 2, 3])
    if faults:
        import random as _random
        dry = TextGen(_random.Random(rng.random()), sm, 0, **kw)
        dry.text()
        tg = TextGen(rng, sm, faults, **kw)
        tg.rate = faults * 1.0 / max(4, dry.sites)
        return tg.text()
    return TextGen(rng, sm, 0, **kw).text()


# ------------------------------------------------------------------ text surgery (C06, C08, C15)


def line_depths(lines):
    """Nesting depth before each line and after the last (unclassifiable lines are neutral)."""
    from zcv import model
    d = 0
    out = []
    for l in lines:
        out.append(d)
        try:
            ev = model.classify_line(l)
        except model.SyntaxReject:
            continue
        if ev[0] == "open" and not ev[3]:
            d += 1
        elif ev[0] == "close":
            d -= 1
    out.append(d)
    return out


def balanced_ranges(lines):
    """All (i, j), i < j, such that lines[i:j] is balanced w.r.t. section nesting."""
    dep = line_depths(lines)
    res = []
    n = len(lines)
    for i in range(n):
        base = dep[i]
        for j in range(i + 1, n + 1):
            if dep[j] < base:
                break
            if dep[j] == base and min(dep[i:j + 1]) >= base:
                res.append((i, j))
    return res


def cut_includes(rng, text, main_url, ncuts=None, places=("", "sub/", "../"), absolute_refs=False):
    """Move 1..3 balanced line ranges (nested cuts allowed) into separate resources.

    -> (resources dict url->text, list of (url, included_url)).  Relative names are resolved
    against the including resource; with 'sub/' and '../' placements the main URL must have at
    least one directory level below the root.
    """
    from zcv import model
    resources = {main_url: text}
    if ncuts is None:
        ncuts = rng.choice([1, 1, 2, 3])
    made = []
    for k in range(ncuts):
        url = rng.choice(sorted(resources))
        lines = resources[url].split("\n")
        if lines and lines[-1] == "":
            lines.pop()
        ranges = balanced_ranges(lines)
        if not ranges:
            continue
        # a line that would be read differently at the very start of a resource (U+FEFF is a
        # byte-order mark there and an ordinary character elsewhere) is a preferred cut point
        marked = [r for r in ranges if lines[r[0]].startswith("\ufeff")]
        i, j = rng.choice(marked) if marked and rng.random() < 0.6 else rng.choice(ranges)
        place = rng.choice(places)
        name = "%sinc%d.conf" % (place, len(resources))
        r = rng.random()
        if r < 0.12 and url != main_url and not place:
            # a fragment whose name differs from its includer's only in letter case
            base = url.rsplit("/", 1)[1]
            name = base.swapcase() if base.swapcase() != base else name
        elif r < 0.3:
            # a file name of several words
            name = "%sinc %d part.conf" % (place, len(resources))
        elif r < 0.38:
            # a file name whose ending means something else to the rest of the world
            name = "%sinc%d%s" % (place, len(resources), rng.choice([".png", ".wav", ".xml", ".html", ".gz", ""]))
        target = model.url_join(url, name)
        if target in resources:
            continue
        frag = lines[i:j]
        if place and any(l.strip().startswith("%include") for l in frag):
            place = ""
            name = "inc%d.conf" % len(resources)
            target = model.url_join(url, name)
            if target in resources:
                continue
        indent = rng.choice(["", "  ", "\t"])
        # the argument of %include is subject to substitution like any value
        written = name
        if rng.random() < 0.15 and "$" not in name:
            written = rng.choice(["$(ZCV_EMPTY)%s", "%s$(ZCV_EMPTY)", "$(Zcv_Mixed)/../%s"]) % name
            if written.startswith("$(Zcv_Mixed)") and (place or " " in name):
                written = "$(ZCV_EMPTY)" + name
        if absolute_refs and rng.random() < 0.12:
            # the argument is a name whose definition is the ABSOLUTE URL of the fragment
            nm = "zcvinc%d" % len(resources)
            newlines = lines[:i] + ["%%define %s %s" % (nm, target), "%s%%include $%s" % (indent, nm)] + lines[j:]
        else:
            newlines = lines[:i] + ["%s%%include %s" % (indent, written)] + lines[j:]
        resources[url] = "".join(l + "\n" for l in newlines)
        resources[target] = "".join(l + "\n" for l in frag)
        made.append((url, target, i, j))
    if made:
        # a resource need not end with a line end: its last line counts all the same
        for u in sorted(resources):
            if rng.random() < 0.25 and resources[u].endswith("\n") and not resources[u].endswith("\n\n"):
                resources[u] = resources[u][:-1]
    return resources, made
