"""Reference conversions for the standard datatypes (C09, and the value datatypes of C02).

Written from docs/standard-datatypes.rst and the C09 statement.  Imports nothing from ZConfig
and uses no regular expressions.  Every function returns

    ("ok", value)        the string is accepted and converts to value
    ("err",)             the string must be refused with ValueError
    ("err", "type")      timedelta only: unknown unit letter (TypeError or ValueError allowed)
    ("unspec", zone)     the documentation does not decide; executed but never compared
"""

import datetime
import ipaddress
import socket
import unicodedata

LOWER = "abcdefghijklmnopqrstuvwxyz"
UPPER = "ABCDEFGHIJKLMNOPQRSTUVWXYZ"
LETTERS = LOWER + UPPER
DIGITS = "0123456789"
HEX = DIGITS + "abcdefABCDEF"

OK = "ok"
ERR = ("err",)


def ascii_lower(s):
    out = []
    for c in s:
        i = UPPER.find(c)
        out.append(LOWER[i] if i >= 0 else c)
    return "".join(out)


def _exotic_case(s):
    """Non-ASCII text whose str.lower() touches ASCII (U+212A KELVIN SIGN -> 'k', U+0130)."""
    for c in s:
        if ord(c) > 127:
            lc = c.lower()
            for d in lc:
                if ord(d) < 128:
                    return True
    return False


# ------------------------------------------------------------------ names


def is_basic_key(s):
    if not s or s[0] not in LETTERS:
        return False
    for c in s[1:]:
        if c not in LETTERS and c not in DIGITS and c not in "-._":
            return False
    return True


def is_identifier(s):
    if not s or (s[0] not in LETTERS and s[0] != "_"):
        return False
    for c in s[1:]:
        if c not in LETTERS and c not in DIGITS and c != "_":
            return False
    return True


def basic_key(s):
    return (OK, ascii_lower(s)) if is_basic_key(s) else ERR


def identifier(s):
    return (OK, s) if is_identifier(s) else ERR


def dotted_name(s):
    parts = s.split(".")
    for p in parts:
        if not is_identifier(p):
            return ERR
    return (OK, s)


def dotted_suffix(s):
    if s.startswith("."):
        # one or more '.identifier'
        parts = s[1:].split(".")
    else:
        parts = s.split(".")
    for p in parts:
        if not is_identifier(p):
            return ERR
    return (OK, s)


# ------------------------------------------------------------------ numbers


def _int_blanks():
    # the blanks the language's int() strips: str.isspace() minus the four ASCII separator
    # controls U+001C..U+001F (a quirk of int(); established by asking int() itself)
    out = set()
    for cp in list(range(0x3001)) + [0xFEFF]:
        c = chr(cp)
        if c.isspace():
            try:
                int("1" + c)
                out.add(c)
            except ValueError:
                pass
    return out


INT_BLANKS = _int_blanks()


def parse_int(s):
    """Python's int(str) syntax, by hand: blanks, sign, digits with single '_' between."""
    i, j = 0, len(s)
    while i < j and s[i] in INT_BLANKS:
        i += 1
    while j > i and s[j - 1] in INT_BLANKS:
        j -= 1
    t = s[i:j]
    if not t:
        return None
    sign = 1
    if t[0] in "+-":
        if t[0] == "-":
            sign = -1
        t = t[1:]
    if not t:
        return None
    value = 0
    prev_us = True      # a digit must come first
    for c in t:
        if c == "_":
            if prev_us:
                return None
            prev_us = True
            continue
        try:
            d = unicodedata.decimal(c)
        except ValueError:
            return None
        value = value * 10 + d
        prev_us = False
    if prev_us:
        return None
    return sign * value


def integer(s):
    v = parse_int(s)
    return ERR if v is None else (OK, v)


def port_number(s):
    v = parse_int(s)
    if v is None or v < 0 or v > 65535:
        return ERR
    return (OK, v)


def float_(s):
    # the reference is the language's own float(); U9: inf/nan are not asserted either way
    try:
        v = float(s)
    except ValueError:
        return ERR
    if v != v or v in (float("inf"), float("-inf")):
        return ("unspec", "U9")
    return (OK, v)


def boolean(s):
    t = ascii_lower(s)
    if t in ("yes", "true", "on"):
        return (OK, True)
    if t in ("no", "false", "off"):
        return (OK, False)
    if _exotic_case(s):
        return ("unspec", "exotic-case")
    return ERR


def _suffix(table, width):
    def conv(s):
        if _exotic_case(s):
            return ("unspec", "exotic-case")
        t = s.lower()
        tail = t[-width:] if len(t) >= width else None
        if tail in table:
            v = parse_int(t[:-width])
            return ERR if v is None else (OK, v * table[tail])
        v = parse_int(t)
        return ERR if v is None else (OK, v)
    return conv


byte_size = _suffix({"kb": 1024, "mb": 1024 ** 2, "gb": 1024 ** 3}, 2)
time_interval = _suffix({"s": 1, "m": 60, "h": 3600, "d": 86400}, 1)


def timedelta(s):
    units = {}
    bad_unit = False
    for part in s.split():
        try:
            val = float(part[:-1])
        except ValueError:
            return ERR
        u = part[-1]
        if u not in "wdhms":
            return ("err", "type")
        if u in units:
            return ("unspec", "repeated-unit")
        units[u] = val
    if bad_unit:
        return ("err", "type")
    try:
        v = datetime.timedelta(weeks=units.get("w", 0), days=units.get("d", 0),
                               hours=units.get("h", 0), minutes=units.get("m", 0),
                               seconds=units.get("s", 0))
    except (OverflowError, ValueError):
        return ERR
    return (OK, v)


# ------------------------------------------------------------------ strings


def string(s):
    return (OK, s)


def null(s):
    return (OK, s)


def string_list(s):
    out = []
    cur = []
    for c in s:
        if c.isspace():
            if cur:
                out.append("".join(cur))
                cur = []
        else:
            cur.append(c)
    if cur:
        out.append("".join(cur))
    return (OK, out)


# ------------------------------------------------------------------ internet addresses


def _inet(default_host):
    def conv(s):
        host = ""
        port = None
        k = s.rfind(":")
        if k >= 0:
            host, p = s[:k], s[k + 1:]
            if len(host) >= 2 and host[0] == "[" and host[-1] == "]":
                host = host[1:-1]
            elif ":" in host:
                host, p = s, ""          # unbracketed IPv6: the last part is not a port
            if p:
                r = port_number(p)
                if r[0] != OK:
                    return ERR
                port = r[1]
            host = host.lower()
        else:
            r = port_number(s)
            if r[0] == OK:
                port = r[1]
            else:
                if len(string_list(s)[1]) != 1:
                    return ERR
                host = s.lower()
        if not host:
            host = default_host
        return (OK, (host, port))
    return conv


inet_address = _inet("")
inet_binding_address = _inet("")
inet_connection_address = _inet("127.0.0.1")


def _sock(inet):
    def conv(s):
        if "/" in s:
            return (OK, ("AF_UNIX", s))
        r = inet(s)
        if r[0] != OK:
            return r
        fam = "AF_INET6" if ":" in r[1][0] else "AF_INET"
        return (OK, (fam, r[1]))
    return conv


socket_address = _sock(inet_address)
socket_binding_address = _sock(inet_binding_address)
socket_connection_address = _sock(inet_connection_address)


def _octet(p, allow_leading_zero):
    if not p or len(p) > 3:
        return False
    for c in p:
        if c not in DIGITS:
            return False
    if not allow_leading_zero and len(p) > 1 and p[0] == "0":
        return False
    if len(p) == 3 and p[0] not in "012":
        return False
    return int(p) <= 255


def is_dotted_quad(s, allow_leading_zero=True):
    parts = s.split(".")
    return len(parts) == 4 and all(_octet(p, allow_leading_zero) for p in parts)


def is_ipv6_text(s):
    """RFC 4291 section 2.2 text forms, by hand."""
    if not s:
        return False
    for c in s:
        if c not in HEX and c not in ":.":
            return False
    if ":::" in s:
        return False
    n_dc = 0
    i = 0
    while True:
        i = s.find("::", i)
        if i < 0:
            break
        n_dc += 1
        i += 2
    if n_dc > 1:
        return False

    def groups(t, last_may_be_v4):
        """-> number of 16-bit groups or None"""
        if t == "":
            return 0
        parts = t.split(":")
        n = 0
        for idx, p in enumerate(parts):
            if "." in p:
                if not (last_may_be_v4 and idx == len(parts) - 1):
                    return None
                if not is_dotted_quad(p, allow_leading_zero=False):
                    return None
                n += 2
            else:
                if not (1 <= len(p) <= 4):
                    return None
                for c in p:
                    if c not in HEX:
                        return None
                n += 1
        return n
    if n_dc:
        left, right = s.split("::")
        a = groups(left, False)
        b = groups(right, True)
        if a is None or b is None:
            return False
        return a + b <= 7
    a = groups(s, True)
    return a == 8


def _lib_ipv6(s):
    if "%" in s:
        # the library also reads scoped literals ('fe80::1%eth0'); a zone index is not part of an
        # IPv6 address, and neither inet_pton nor RFC 4291 knows it
        return False
    try:
        ipaddress.IPv6Address(s)
        return True
    except ValueError:
        return False


def _os_ipv6(s):
    try:
        socket.inet_pton(socket.AF_INET6, s)
        return True
    except (OSError, ValueError):
        return False


def is_hostname(s):
    if len(s) < 2:
        return False
    if s[0] not in LETTERS and s[0] != "_":
        return False
    for c in s[1:]:
        if c not in LETTERS and c not in DIGITS and c not in "-_.":
            return False
    return s[-1] != "."


def ipaddr_or_hostname(s):
    if any(ord(c) > 127 and c.isdigit() for c in s):
        return ("unspec", "non-ascii-digit")
    if _exotic_case(s):
        return ("unspec", "exotic-case")
    if ":" in s:
        mine = is_ipv6_text(s)
        if mine != _lib_ipv6(s) or mine != _os_ipv6(s):
            return ("unspec", "U10-ipv6-libraries-disagree")
        return (OK, s.lower()) if mine else ERR
    if is_dotted_quad(s):
        return (OK, s)
    if len(s) == 1 and (s in LETTERS or s == "_"):
        return ("unspec", "U10-single-char-host")
    if is_hostname(s):
        return (OK, ascii_lower(s))
    return ERR


REF = {
    "basic-key": basic_key,
    "identifier": identifier,
    "dotted-name": dotted_name,
    "dotted-suffix": dotted_suffix,
    "boolean": boolean,
    "integer": integer,
    "float": float_,
    "string": string,
    "string-list": string_list,
    "null": null,
    "port-number": port_number,
    "byte-size": byte_size,
    "time-interval": time_interval,
    "timedelta": timedelta,
    "inet-address": inet_address,
    "inet-binding-address": inet_binding_address,
    "inet-connection-address": inet_connection_address,
    "socket-address": socket_address,
    "socket-binding-address": socket_binding_address,
    "socket-connection-address": socket_connection_address,
    "ipaddr-or-hostname": ipaddr_or_hostname,
}

IDEMPOTENT = ("basic-key", "identifier", "ipaddr-or-hostname")
