"""Reference semantics, part 2: loading a text against a schema AST (DESIGN appendix A).

Written from docs/using-zconfig.rst, docs/writing-schema.rst and the statements of C01, C02,
C08, C12 and C16.  Imports nothing from ZConfig.  The schema is the generator's AST
(zcv.gen), never the XML and never a ZConfig schema object.

    ref_load(schema_ast, resources, main_url, packages=None, env=None) -> Outcome

Outcome.kind is 'accept' (tree, handler entries), 'reject' (rule, lineno, url, ...) or
'unspec' (zone).
"""

import copy

from zcv import model, refdt

KEYTYPES = {
    "basic-key": refdt.basic_key,
    "identifier": refdt.identifier,
    "ipaddr-or-hostname": refdt.ipaddr_or_hostname,
    "zcv.dt.basickey": refdt.basic_key,
    "zcv.dt.Methods.basickey": refdt.basic_key,
}

SEMANTIC_RULES = (
    "unknown-key", "key-twice", "wildkey-twice", "key-conversion", "unknown-type",
    "abstract-type-named", "no-slot", "name-star-plus", "unnamed-in-plus-slot",
    "name-reuse", "slot-twice", "missing-key", "missing-multikey", "missing-wildkey",
    "missing-section", "missing-multisection", "value-conversion", "section-datatype",
    "key-names-section", "section-names-key",
)


class Outcome:
    def __init__(self, kind, **kw):
        self.kind = kind
        self.rule = kw.get("rule")
        self.lineno = kw.get("lineno")
        self.url = kw.get("url")
        self.value = kw.get("value")
        self.zone = kw.get("zone")
        self.tree = kw.get("tree")
        self.handlers = kw.get("handlers")
        self.stats = kw.get("stats", {})
        self.line_promised = kw.get("line_promised", False)
        self.dt = kw.get("dt")              # name of the key type / datatype that refused (conversion rejects)
        self.pinned = kw.get("pinned") or []

    def __repr__(self):
        if self.kind == "accept":
            return "ACCEPT"
        if self.kind == "reject":
            return "REJECT(%s, line %s, %s)" % (self.rule, self.lineno, self.url)
        return "UNSPEC(%s)" % self.zone


class _Reject(Exception):
    def __init__(self, rule, lineno=None, url=None, value=None, promised=True, dt=None):
        Exception.__init__(self, rule)
        self.rule, self.lineno, self.url, self.value = rule, lineno, url, value
        self.dt = dt
        self.promised = promised and lineno is not None


class _Unspec(Exception):
    def __init__(self, zone):
        Exception.__init__(self, zone)
        self.zone = zone


# ------------------------------------------------------------------ schema compilation


class Item:
    __slots__ = ("kind", "name", "wild", "attr", "required", "dt", "type", "default",
                 "defaults", "rawdefaults", "handler")

    def __repr__(self):
        return "<%s %s attr=%s>" % (self.kind, self.name, self.attr)

    def is_section(self):
        return self.kind in ("section", "multisection")

    def is_multi(self):
        return self.kind in ("multikey", "multisection")


class Container:
    def __init__(self, name, kt, dt):
        self.name = name
        self.kt = kt
        self.dt = dt
        self.items = []
        self.handler = None


class SchemaModel:
    def __init__(self):
        self.top = None
        self.types = {}          # name -> Container
        self.abstract = {}       # name -> list of implementer names (declaration order)
        self.problems = []


def derive_attr(name):
    r = refdt.basic_key(name)
    if r[0] != "ok":
        return None
    a = r[1].replace("-", "_")
    return a if refdt.is_identifier(a) else None


def norm_key(kt, text):
    """-> normalised key or None (not convertible); raises _Unspec in an undecided zone."""
    r = KEYTYPES[kt](text)
    if r[0] == "ok":
        return r[1]
    if r[0] == "unspec":
        raise _Unspec("keytype:" + r[1])
    return None


def _compile_item(src, kt):
    it = Item()
    it.kind = src["kind"]
    name = src["name"]
    it.wild = name in ("+", "*")
    it.name = name if it.wild else norm_key(kt, name)
    if it.name is None:
        raise ValueError("schema AST: name %r is not a %s" % (name, kt))
    it.attr = src.get("attribute") or (None if it.wild else derive_attr(it.name))
    if it.attr is None:
        raise ValueError("schema AST: no attribute for %r" % (name,))
    it.required = bool(src.get("required"))
    it.dt = src.get("datatype") or "string"
    it.type = src.get("type")
    it.default = src.get("default")
    if it.default is not None:
        it.default = model.strip_ws(it.default)          # surrounding blanks are not part of a default
    it.handler = src.get("handler").lower() if src.get("handler") else None
    it.rawdefaults = [(d[0], model.strip_ws(d[1])) if isinstance(d, (list, tuple)) else model.strip_ws(d)
                      for d in (src.get("defaults") or [])]
    it.defaults = None
    _key_defaults(it, kt)
    return it


def _key_defaults(it, kt):
    if it.is_section():
        return
    if it.wild:
        d = {}
        order = []
        for rawk, v in it.rawdefaults:
            k = norm_key(kt, rawk)
            if k is None:
                raise ValueError("schema AST: default key %r is not a %s" % (rawk, kt))
            if it.kind == "multikey":
                if k not in d:
                    d[k] = []
                    order.append(k)
                d[k].append(v)
            else:
                if k in d:
                    raise ValueError("schema AST: colliding default keys %r" % (rawk,))
                d[k] = v
                order.append(k)
        it.defaults = [(k, d[k]) for k in order]
    elif it.kind == "multikey":
        it.defaults = list(it.rawdefaults)


def compile_schema(ast, packages=None):
    """AST -> SchemaModel.  Component packages named in ast['imports'] are merged in."""
    sm = SchemaModel()
    top = Container(None, ast.get("keytype") or "basic-key", ast.get("datatype"))
    top.handler = ast.get("handler").lower() if ast.get("handler") else None
    sm.top = top

    def add_types(src):
        for a in src.get("abstract", []):
            sm.abstract.setdefault(a.lower(), [])
        for t in src.get("types", []):
            add_type(sm, t)
    if ast.get("imports_after_abstract"):
        for a in ast.get("abstract", []):
            sm.abstract.setdefault(a.lower(), [])
    for pkg in ast.get("imports", []):
        add_types((packages or {})[pkg])
    add_types(ast)
    for src in ast.get("items", []):
        top.items.append(_compile_item(src, top.kt))
    return sm


def add_type(sm, t):
    name = t["name"].lower()
    base = sm.types[t["extends"].lower()] if t.get("extends") else None
    kt = t.get("keytype") or (base.kt if base else "basic-key")
    dt = t["datatype"] if "datatype" in t and t["datatype"] is not None else (base.dt if base else None)
    c = Container(name, kt, dt)
    if base:
        for bi in base.items:
            ni = copy.copy(bi)
            if not ni.is_section() and ni.wild:
                _key_defaults(ni, kt)
            c.items.append(ni)
    for src in t.get("items", []):
        c.items.append(_compile_item(src, kt))
    sm.types[name] = c
    if t.get("implements"):
        sm.abstract[t["implements"].lower()].append(name)
    return c


def import_package(sm, pkg_ast):
    """%import: add the component's abstract types, types and implementers (in place)."""
    for a in pkg_ast.get("abstract", []):
        sm.abstract.setdefault(a.lower(), [])
    for t in pkg_ast.get("types", []):
        if t["name"].lower() in sm.types or t["name"].lower() in sm.abstract:
            raise KeyError("type name %r cannot be redefined" % t["name"])
        add_type(sm, t)


# ------------------------------------------------------------------ loading


class _Frame:
    def __init__(self, ctype, name, slot, opened_at):
        self.ctype = ctype          # Container
        self.name = name
        self.slot = slot            # Item in the parent (None for top)
        self.opened_at = opened_at
        self.values = {}            # attr -> list of (text, lineno, url) | dict key->list | list of section values
        self.used_names = set()
        for it in ctype.items:
            if it.is_section():
                self.values[it.attr] = []
            elif it.wild:
                self.values[it.attr] = {}
                self.values[("order", it.attr)] = []
            else:
                self.values[it.attr] = []


def convert(dtname, text):
    if dtname == "zcv.dtalt.evenint":
        v = refdt.parse_int(text)
        if v is None or v % 2 == 0:
            return ("err",)
        return ("ok", -v)
    if dtname.startswith("zcv.dt."):
        fn = dtname.split(".")[-1]
        if fn == "reject":
            return ("err",)
        if fn in ("evenint", "nested"):
            v = refdt.parse_int(text)
            if v is None or v % 2:
                return ("err",)
            return ("ok", v)
        if fn in ("counting", "reentrant"):
            return ("ok", text)
        if fn == "boom":
            return ("unspec", "non-ValueError-datatype")
        raise KeyError(dtname)
    return refdt.REF[dtname](text)


def tag_value(v):
    """Plain-data form of a converted value (comparable with zcv.digest.digest)."""
    if isinstance(v, float):
        return {"float": repr(v)}
    if isinstance(v, tuple):
        return {"tuple": [tag_value(x) for x in v]}
    if isinstance(v, list):
        return [tag_value(x) for x in v]
    return v


def apply_section_dt(dt, value):
    if dt in (None, "null"):
        return value
    if dt in ("zcv.dt.wrap", "zcv.dtalt.wrap2", "zcv.dt.Methods.wrap"):
        return {"W": value}
    if dt in ("zcv.dt.wrap2", "zcv.dtalt.wrap"):
        return {"W2": value}
    if dt == "zcv.dt.counting_section":
        return value
    if dt == "zcv.dt.picky":
        for v in value["attrs"].values():
            if v == "REJECTME" or (isinstance(v, list) and "REJECTME" in v):
                raise _Reject("section-datatype", promised=False)
        return {"W": value}
    if dt == "zcv.dt.reject":
        raise _Reject("section-datatype", promised=False)
    raise KeyError(dt)


def ref_load(ast, resources, main_url, packages=None, env=None, sm=None, pin=False):
    """pin=True: where the statement leaves open WHICH of several claiming children a header or
    key line goes to (zones U1-U3), follow the resolution rule of the pinned tree -- the first
    child, in declaration order, that claims the line: a fixed-name child claims by name (and
    then demands its own kind and type), a wildcard section slot claims by type.  The zones met
    are listed in Outcome.pinned."""
    pinned = []
    try:
        out = _ref_load(ast, resources, main_url, packages or {}, env, sm, pinned if pin else None)
        out.pinned = pinned
        return out
    except _Reject as e:
        return Outcome("reject", rule=e.rule, lineno=e.lineno, url=e.url, value=e.value,
                       line_promised=e.promised, pinned=pinned, dt=getattr(e, "dt", None))
    except _Unspec as e:
        return Outcome("unspec", zone=e.zone)
    except model.Unspecified as e:
        return Outcome("unspec", zone=e.zone)


def _ref_load(ast, resources, main_url, packages, env, sm, pinned=None):
    sm = copy.deepcopy(sm) if sm is not None else compile_schema(ast, packages)
    if env is None:
        import os
        env = dict(os.environ)

    def reading():
        try:
            yield from model.ref_read_iter(resources, main_url, env=env)
        except model.Reject as e:
            promised = e.kind not in ("include-missing", "include-cycle", "include-fragment")
            raise _Reject("syntax:" + e.kind, e.lineno, e.url, promised=promised)
    events = reading()
    handlers = []
    stats = {"sections": 0, "keys": 0, "defaults_used": 0, "text_values": 0, "nested": 0,
             "imports": 0, "imported_types_used": 0}
    imported_types = set()
    imported_pkgs = set()
    stack = [_Frame(sm.top, None, None, None)]

    def fits_type(slot, tname):
        st = slot.type.lower()
        if st == tname:
            return True
        return st in sm.abstract and tname in sm.abstract[st]

    def pinned_slot(T, tname, name, lineno, url):
        for it in T.items:
            if not it.wild:
                if name is not None and it.name == name:
                    if not it.is_section():
                        raise _Reject("section-names-key", lineno, url)
                    if not fits_type(it, tname):
                        raise _Reject("no-slot", lineno, url)
                    return it
            elif it.is_section() and fits_type(it, tname):
                return it
        raise _Reject("no-slot", lineno, url)

    for ev in events:
        kind = ev[0]
        F = stack[-1]
        T = F.ctype
        if kind == "define":
            continue
        if kind == "import":
            pkg, lineno, url = ev[1], ev[2], ev[3]
            stats["imports"] += 1
            if pkg in imported_pkgs or pkg in (ast.get("imports") or []):
                continue
            if pkg not in packages:
                raise _Reject("import-unknown-package", lineno, url, promised=False)
            before = set(sm.types)

            def do_import(name):
                if name in imported_pkgs or name in (ast.get("imports") or []):
                    return
                if name not in packages:
                    raise _Reject("import-unknown-package", lineno, url, promised=False)
                imported_pkgs.add(name)
                for dep in packages[name].get("imports", []):
                    do_import(dep[0] if isinstance(dep, (list, tuple)) else dep)
                try:
                    import_package(sm, packages[name])
                except KeyError:
                    raise _Reject("import-broken-component", lineno, url, promised=False)
            do_import(pkg)
            imported_types |= set(sm.types) - before
            continue
        if kind == "key":
            key, value, lineno, url = ev[1], ev[2], ev[3], ev[4]
            k = norm_key(T.kt, key)
            if k is None:
                raise _Reject("key-conversion", lineno, url, value=key, dt=T.kt)
            target = None
            wild = None
            for it in T.items:
                if not it.wild and it.name == k:
                    target = it
                    break
                if it.wild and not it.is_section() and wild is None:
                    wild = it
            if target is not None and target.is_section():
                if wild is not None:
                    if pinned is None:
                        raise _Unspec("U3")
                    pinned.append("U3")       # pinned rule: the fixed name claims the line
                raise _Reject("key-names-section", lineno, url)
            if target is None:
                if wild is None:
                    raise _Reject("unknown-key", lineno, url)
                target = wild
                store = F.values[target.attr]
                if target.kind == "key":
                    if k in store:
                        raise _Reject("wildkey-twice", lineno, url)
                    store[k] = [(value, lineno, url)]
                    F.values[("order", target.attr)].append(k)
                else:
                    if k not in store:
                        store[k] = []
                        F.values[("order", target.attr)].append(k)
                    store[k].append((value, lineno, url))
            else:
                store = F.values[target.attr]
                if target.kind == "key" and store:
                    raise _Reject("key-twice", lineno, url)
                store.append((value, lineno, url))
            stats["keys"] += 1
            continue
        if kind == "open":
            tname, name, lineno, url = ev[1], ev[2], ev[3], ev[4]
            if tname in sm.abstract:
                raise _Reject("abstract-type-named", lineno, url)
            if tname not in sm.types:
                raise _Reject("unknown-type", lineno, url)
            if name in ("*", "+"):
                raise _Reject("name-star-plus", lineno, url)
            cands = [it for it in T.items if it.is_section() and fits_type(it, tname)
                     and (it.wild or it.name == name)]
            if name is not None:
                clash = False
                for it in T.items:
                    if it.wild or it in cands:
                        continue
                    if it.name == name:
                        clash = True
                if clash:
                    if any(c.wild for c in cands):
                        if pinned is None:
                            if name in F.used_names:
                                # however the header is resolved, the name is already taken
                                raise _Reject("name-reuse", lineno, url, promised=False)
                            raise _Unspec("U1")
                        pinned.append("U1")
                        cands = [pinned_slot(T, tname, name, lineno, url)]
                    else:
                        raise _Reject("section-names-key", lineno, url)
            if not cands:
                raise _Reject("no-slot", lineno, url)
            if len(cands) > 1:
                if pinned is None:
                    if name and name in F.used_names:
                        raise _Reject("name-reuse", lineno, url, promised=False)
                    raise _Unspec("U2")
                pinned.append("U2")
                cands = [pinned_slot(T, tname, name, lineno, url)]
            slot = cands[0]
            if slot.wild and slot.name == "+" and not name:
                raise _Reject("unnamed-in-plus-slot", lineno, url)
            stack.append(_Frame(sm.types[tname], name, slot, (lineno, url)))
            stats["sections"] += 1
            stats["nested"] = max(stats["nested"], len(stack) - 1)
            if not sm.types[tname].items and slot.wild:
                stats["childless_sections"] = stats.get("childless_sections", 0) + 1
            if tname in imported_types:
                stats["imported_types_used"] += 1
            continue
        if kind == "close":
            lineno, url = ev[2], ev[3]
            G = stack.pop()
            value = _finish(sm, G, lineno, url, handlers, stats, pinned)
            P = stack[-1]
            if G.name:
                if G.name in P.used_names:
                    raise _Reject("name-reuse", lineno, url)
                P.used_names.add(G.name)
            store = P.values[G.slot.attr]
            if G.slot.kind == "section" and store:
                raise _Reject("slot-twice", lineno, url)
            store.append(value)
            continue
    top = stack[0]
    value = _finish(sm, top, None, None, handlers, stats, pinned)
    topdt = value.pop("_dt", None)
    value = apply_section_dt(topdt, value)
    if sm.top.handler:
        handlers.append((sm.top.handler, value))
    return Outcome("accept", tree=value, handlers=handlers, stats=stats)


def _finish(sm, G, lineno, url, handlers, stats, pinned=None):
    U = G.ctype
    # 1. constraints, in item order
    for it in U.items:
        v = G.values[it.attr]
        if it.is_section():
            if it.required and not v:
                raise _Reject("missing-section" if it.kind == "section" else "missing-multisection",
                              lineno, url)
        elif it.wild:
            # a required wildcard map must be filled by the text: keyed defaults are used "only
            # when the text supplies no key at all", and then the map is not filled
            if it.required and not v:
                raise _Reject("missing-wildkey", lineno, url)
        elif it.kind == "key":
            if it.required and not v:
                raise _Reject("missing-key", lineno, url)
        else:
            if it.required and not v:
                if it.defaults:
                    # zone U4: the documentation forbids defaults on a required multikey, the
                    # schema parser accepts them; the pinned tree lets them satisfy the minimum
                    if pinned is None:
                        raise _Unspec("U4")
                    pinned.append("U4")
                else:
                    raise _Reject("missing-multikey", lineno, url)
    # 2. conversion, in item order
    attrs = {}
    own_handlers = []

    def conv(it, text, vl, vu):
        r = convert(it.dt, text)
        if r[0] == "unspec":
            raise _Unspec("datatype:" + r[1])
        if r[0] != "ok":
            raise _Reject("value-conversion", vl, vu, value=text, promised=vl is not None, dt=it.dt)
        return tag_value(r[1])

    for it in U.items:
        v = G.values[it.attr]
        if it.is_section():
            out = []
            for child in v:
                out.append(apply_section_dt(child["_dt"], child))
            for child in v:
                child.pop("_dt", None)
            val = out if it.kind == "multisection" else (out[0] if out else None)
        elif it.wild:
            order = G.values[("order", it.attr)]
            if not order:
                val = {}
                for k, dv in it.defaults:
                    stats["defaults_used"] += 1
                    if it.kind == "multikey":
                        val[k] = [conv(it, x, None, None) for x in dv]
                    else:
                        val[k] = conv(it, dv, None, None)
            else:
                val = {}
                for k in order:
                    stats["text_values"] += 1
                    if it.kind == "multikey":
                        val[k] = [conv(it, t, l, u) for t, l, u in v[k]]
                    else:
                        t, l, u = v[k][0]
                        val[k] = conv(it, t, l, u)
        elif it.kind == "key":
            if v:
                stats["text_values"] += 1
                t, l, u = v[0]
                val = conv(it, t, l, u)
            elif it.default is not None:
                stats["defaults_used"] += 1
                val = conv(it, it.default, None, None)
            else:
                val = None
        else:
            if v:
                stats["text_values"] += 1
                val = [conv(it, t, l, u) for t, l, u in v]
            else:
                if it.defaults:
                    stats["defaults_used"] += 1
                val = [conv(it, x, None, None) for x in it.defaults]
        attrs[it.attr] = val
        if it.handler:
            own_handlers.append((it.handler, val))
    handlers.extend(own_handlers)
    return {"type": U.name, "name": G.name, "attrs": attrs, "_dt": U.dt}
