"""Reference semantics, part 1: $-substitution (C04) and the line grammar (C03).

Written from docs/py-mod-subst.rst, docs/using-zconfig.rst and the property
statements.  Imports nothing from ZConfig and uses no regular expressions.
"""

ASCII_LETTERS = "abcdefghijklmnopqrstuvwxyzABCDEFGHIJKLMNOPQRSTUVWXYZ"
DIGITS = "0123456789"
NAME_START = ASCII_LETTERS + "_"
NAME_CHARS = NAME_START + DIGITS


class SubstSyntax(Exception):
    pass


class SubstMissing(Exception):
    def __init__(self, name):
        Exception.__init__(self, name)
        self.name = name


class Unspecified(Exception):
    def __init__(self, zone):
        Exception.__init__(self, zone)
        self.zone = zone


def ref_isname(s):
    if not s or s[0] not in NAME_START:
        return False
    for c in s[1:]:
        if c not in NAME_CHARS:
            return False
    return True


def _scan_name(s, i):
    """maximal name starting at i -> end index (i if none)."""
    n = len(s)
    if i >= n or s[i] not in NAME_START:
        return i
    j = i + 1
    while j < n and s[j] in NAME_CHARS:
        j += 1
    return j


def _u11(s, j):
    # zone U11: a non-ASCII alphanumeric directly where a name starts or right
    # after an ASCII name -- "letter" is not defined for non-ASCII text.
    if j < len(s):
        c = s[j]
        if ord(c) > 127 and (c.isalnum() or c == "_"):
            raise Unspecified("U11")


def ref_subst(s, mapping, env, strict_u11=True):
    """-> result string; raises SubstSyntax, SubstMissing(name-as-written) or Unspecified.

    mapping: lower-cased name -> str ; env: NAME (case preserved) -> str.
    Left-to-right scan; replacement text is never rescanned.  Errors are
    reported in scanning order; which error wins when a string holds several
    is zone U8 (callers compare only the class when ``multi_error`` is set).
    """
    if "$" not in s:
        return s
    out = []
    i = 0
    n = len(s)
    while i < n:
        c = s[i]
        if c != "$":
            out.append(c)
            i += 1
            continue
        if i + 1 >= n:
            raise SubstSyntax("trailing lone $")
        d = s[i + 1]
        if d == "$":
            out.append("$")
            i += 2
            continue
        if d == "{" or d == "(":
            close = "}" if d == "{" else ")"
            j = _scan_name(s, i + 2)
            if j == i + 2:
                if strict_u11:
                    _u11(s, j)
                raise SubstSyntax("no name after $%s" % d)
            if j >= n or s[j] != close:
                if strict_u11:
                    _u11(s, j)
                raise SubstSyntax("unterminated $%s" % d)
            name = s[i + 2:j]
            if d == "{":
                v = mapping.get(name.lower())
            else:
                v = env.get(name)
            if v is None:
                raise SubstMissing(name)
            out.append(v)
            i = j + 1
            continue
        j = _scan_name(s, i + 1)
        if j == i + 1:
            if strict_u11:
                _u11(s, j)
            raise SubstSyntax("$ followed by something else")
        if strict_u11:
            _u11(s, j)
        name = s[i + 1:j]
        v = mapping.get(name.lower())
        if v is None:
            raise SubstMissing(name)
        out.append(v)
        i = j
    return "".join(out)


def subst_error_count(s, mapping, env):
    """How many distinct problems does the string hold (for zone U8)?

    Scans like ref_subst but keeps going after a problem: returns the list of
    problems ('syntax', or ('missing', name)) in reading order.  After a
    syntax problem the rest of the string has no defined reading, so scanning
    stops there.
    """
    problems = []
    i = 0
    n = len(s)
    while i < n:
        if s[i] != "$":
            i += 1
            continue
        if i + 1 >= n:
            problems.append("syntax")
            break
        d = s[i + 1]
        if d == "$":
            i += 2
            continue
        if d in "{(":
            close = "}" if d == "{" else ")"
            j = _scan_name(s, i + 2)
            if j == i + 2 or j >= n or s[j] != close:
                problems.append("syntax")
                break
            name = s[i + 2:j]
            v = mapping.get(name.lower()) if d == "{" else env.get(name)
            if v is None:
                problems.append(("missing", name))
            i = j + 1
            continue
        j = _scan_name(s, i + 1)
        if j == i + 1:
            problems.append("syntax")
            break
        name = s[i + 1:j]
        if mapping.get(name.lower()) is None:
            problems.append(("missing", name))
        i = j
    return problems


# --------------------------------------------------------------------------
# line grammar


class SyntaxReject(Exception):
    def __init__(self, lineno, why):
        Exception.__init__(self, "line %s: %s" % (lineno, why))
        self.lineno = lineno
        self.why = why


def strip_ws(s):
    i, j = 0, len(s)
    while i < j and s[i].isspace():
        i += 1
    while j > i and s[j - 1].isspace():
        j -= 1
    return s[i:j]


def rstrip_ws(s):
    j = len(s)
    while j > 0 and s[j - 1].isspace():
        j -= 1
    return s[:j]


def lstrip_ws(s):
    i = 0
    while i < len(s) and s[i].isspace():
        i += 1
    return s[i:]


def _is_name_char(c):
    return not c.isspace() and c not in "()"


def split_key_value(line):
    """-> (key, value) or None when the line does not start with a key."""
    i = 0
    n = len(line)
    while i < n and _is_name_char(line[i]):
        i += 1
    if i == 0:
        return None
    key = line[:i]
    rest = lstrip_ws(line[i:])
    # after a key only whitespace may precede the value; a parenthesis directly
    # after the key starts the value (it is a non-space character)
    return key, rest


def parse_header(body):
    """'type' or 'type ws+ name' -> (type, name|None) or None."""
    i = 0
    n = len(body)
    while i < n and _is_name_char(body[i]):
        i += 1
    if i == 0:
        return None
    type_ = body[:i]
    if i == n:
        return type_, None
    if not body[i].isspace():
        return None
    j = i
    while j < n and body[j].isspace():
        j += 1
    if j == n:
        # only reachable if body was not right-stripped
        return type_, None
    k = j
    while k < n and _is_name_char(body[k]):
        k += 1
    if k != n or k == j:
        return None
    return type_, body[j:k]


def physical_lines(text):
    """The lines as a file object yields them: split after each newline."""
    lines = text.split("\n")
    if lines and lines[-1] == "":
        lines.pop()
    return lines


def classify_line(raw):
    """One physical line -> event tuple, or raises SyntaxReject(None, why).

    ('blank',) ('comment',) ('close', type) ('open', type, name, is_empty)
    ('define'|'import'|'include', arg) ('key', key, value)
    """
    line = strip_ws(raw)
    if line == "":
        return ("blank",)
    if line[0] == "#":
        return ("comment",)
    if line[:2] == "</":
        if line[-1] != ">":
            raise SyntaxReject(None, "malformed section end")
        return ("close", rstrip_ws(line[2:-1]).lower())
    if line[0] == "<":
        if line[-1] != ">":
            raise SyntaxReject(None, "malformed section start")
        body = line[1:-1]
        empty = body[-1:] == "/"
        if empty:
            body = body[:-1]
        body = rstrip_ws(body)
        hdr = parse_header(body)
        if hdr is None:
            raise SyntaxReject(None, "malformed section header")
        type_, name = hdr
        return ("open", type_.lower(), name.lower() if name else None, empty)
    if line[0] == "%":
        kv = split_key_value(line[1:])
        if kv is None:
            raise SyntaxReject(None, "missing directive")
        name, arg = kv
        if name not in ("define", "import", "include"):
            raise SyntaxReject(None, "unknown directive")
        if arg == "":
            raise SyntaxReject(None, "missing argument")
        return (name, arg)
    kv = split_key_value(line)
    if kv is None:
        raise SyntaxReject(None, "malformed configuration data")
    return ("key", kv[0], kv[1])


def ref_events(text):
    """Whole text -> list of (lineno, event) for non-blank non-comment lines.

    Raises SyntaxReject(lineno, why) at the first bad line, on a surplus or
    mismatched closer, and (at the last line) on unclosed sections.
    """
    events = []
    stack = []
    lineno = 0
    for raw in physical_lines(text):
        lineno += 1
        try:
            ev = classify_line(raw)
        except SyntaxReject as e:
            raise SyntaxReject(lineno, e.why)
        kind = ev[0]
        if kind in ("blank", "comment"):
            continue
        if kind == "open":
            if not ev[3]:
                stack.append(ev[1])
        elif kind == "close":
            if not stack:
                raise SyntaxReject(lineno, "unexpected section end")
            if stack.pop() != ev[1]:
                raise SyntaxReject(lineno, "unbalanced section end")
        events.append((lineno, ev))
    if stack:
        raise SyntaxReject(lineno, "unclosed sections")
    return events


# --------------------------------------------------------------------------
# reading resources: directives, the %define namespace, includes  (DESIGN appendix A.1)


class Reject(Exception):
    """The reference reader refuses the text.

    kind: syntax | subst-syntax | subst-missing | define-redefine | define-name |
          include-missing | include-cycle | nesting
    lineno / url: the culprit line (1-based in its own resource) where the model promises one.
    """

    def __init__(self, kind, lineno=None, url=None, detail=""):
        Exception.__init__(self, "%s at %s line %s %s" % (kind, url, lineno, detail))
        self.kind = kind
        self.lineno = lineno
        self.url = url
        self.detail = detail


def url_join(base, ref):
    """Relative reference (plain names, 'sub/x', '../x') against a file:/// URL."""
    if ":" in ref.split("/")[0] and len(ref.split(":")[0]) > 1:
        return ref
    if ref.startswith("/"):
        return "file://" + ref
    segs = base[len("file://"):].split("/")[:-1]
    for part in ref.split("/"):
        if part == "..":
            if len(segs) > 1:
                segs.pop()
        elif part == ".":
            continue
        else:
            segs.append(part)
    return "file://" + "/".join(segs)


def split_define(arg):
    """'%define' argument -> (NAME, raw value)."""
    i = 0
    n = len(arg)
    while i < n and not arg[i].isspace():
        i += 1
    name = arg[:i]
    return name, lstrip_ws(arg[i:])


def ref_read(resources, main_url, env=None, defs=None):
    """Flatten a load into reading-order events: -> (events, defs).  See ref_read_iter."""
    defs = {} if defs is None else defs
    return list(ref_read_iter(resources, main_url, env, defs)), defs


def ref_read_iter(resources, main_url, env=None, defs=None):
    """Generator of reading-order events (so that a consumer sees problems in reading order).

    resources: url -> text.  Events:
      ("open", type, name, lineno, url, is_empty) ("close", type, lineno, url)
      ("key", key, value, lineno, url) ("import", package, lineno, url)
      ("define", name, value, lineno, url)
    Raises Reject / Unspecified.
    """
    env = env or {}
    defs = {} if defs is None else defs
    active = []

    def subst(text, lineno, url):
        try:
            return ref_subst(text, defs, env)
        except SubstSyntax:
            raise Reject("subst-syntax", lineno, url, text)
        except SubstMissing as e:
            raise Reject("subst-missing", lineno, url, e.name)

    def read(url):
        if url in active:
            raise Reject("include-cycle", None, url)
        active.append(url)
        text = resources[url]
        stack = []
        lineno = 0
        for raw in physical_lines(text):
            lineno += 1
            try:
                ev = classify_line(raw)
            except SyntaxReject as e:
                raise Reject("syntax", lineno, url, e.why)
            kind = ev[0]
            if kind in ("blank", "comment"):
                continue
            if kind == "open":
                yield ("open", ev[1], ev[2], lineno, url, ev[3])
                if ev[3]:
                    yield ("close", ev[1], lineno, url)
                else:
                    stack.append(ev[1])
            elif kind == "close":
                if not stack:
                    raise Reject("nesting", lineno, url, "unexpected section end")
                if stack.pop() != ev[1]:
                    raise Reject("nesting", lineno, url, "unbalanced section end")
                yield ("close", ev[1], lineno, url)
            elif kind == "key":
                value = ev[2]
                if value != "":
                    value = subst(value, lineno, url)
                yield ("key", ev[1], value, lineno, url)
            elif kind == "define":
                name, rawv = split_define(ev[1])
                n = name.lower()
                if not ref_isname(n):
                    raise Reject("define-name", lineno, url, name)
                if not ref_isname(name):
                    raise Unspecified("U11")
                v = subst(rawv, lineno, url)
                if n in defs and defs[n] != v:
                    raise Reject("define-redefine", lineno, url, n)
                defs[n] = v
                yield ("define", n, v, lineno, url)
            elif kind == "import":
                yield ("import", subst(strip_ws(ev[1]), lineno, url), lineno, url)
            elif kind == "include":
                target = url_join(url, subst(strip_ws(ev[1]), lineno, url))
                if "#" in target:
                    raise Reject("include-fragment", lineno, url, target)
                if target not in resources:
                    # the same file may be named with or without percent-escapes
                    from urllib.parse import unquote
                    alt = [u for u in resources if unquote(u) == unquote(target)]
                    if not alt:
                        raise Reject("include-missing", lineno, url, target)
                    target = alt[0]
                yield from read(target)
        if stack:
            raise Reject("nesting", lineno, url, "unclosed sections")
        active.pop()

    yield from read(main_url)
