"""Shared plain-data helpers for property modules."""

import collections
import hashlib
import json

MAX_FAILS_PER_SIG = 40


def h64(obj):
    """Stable 64-bit hash of plain data."""
    s = obj if isinstance(obj, str) else json.dumps(
        obj, sort_keys=True, ensure_ascii=True, default=repr)
    return hashlib.blake2b(s.encode("utf-8", "surrogatepass"),
                           digest_size=8).digest()


def failure(sig, case, detail=""):
    return {"sig": sig, "case": case, "detail": str(detail)[:2000]}


class Result:
    """What one shard reports back.  Everything is plain data."""

    def __init__(self):
        self.evaluations = 0
        self.nontrivial_count = 0        # distinct by construction (enumerations)
        self.nontrivial_hashes = set()   # distinct by hash (random parts)
        self.counters = collections.Counter()
        self.samples = []
        self.failures = []               # failure() dicts
        self.fail_counts = collections.Counter()
        self.exhaustive_parts = []       # descriptions of completely enumerated domains
        self.notes = []

    def count(self, key, n=1):
        self.counters[key] += n

    def nontrivial(self, case=None, key=None):
        if case is None and key is None:
            self.nontrivial_count += 1
        else:
            self.nontrivial_hashes.add(h64(case if key is None else key))

    def sample(self, case, limit=3):
        if len(self.samples) < limit:
            self.samples.append(case)

    def fail(self, sig, case, detail=""):
        self.fail_counts[sig] += 1
        if self.fail_counts[sig] <= MAX_FAILS_PER_SIG:
            self.failures.append(failure(sig, case, detail))

    def extend(self, fails):
        for f in fails:
            self.fail(f["sig"], f["case"], f.get("detail", ""))

    def pack(self):
        return {
            "evaluations": self.evaluations,
            "nontrivial_count": self.nontrivial_count,
            "nontrivial_hashes": self.nontrivial_hashes,
            "counters": dict(self.counters),
            "samples": self.samples,
            "failures": self.failures,
            "fail_counts": dict(self.fail_counts),
            "exhaustive_parts": self.exhaustive_parts,
            "notes": self.notes,
        }


