"""Atheris driver (coverage-guided fuzzing on libFuzzer), run under python3-vt:

    python3-vt -m zcv.fuzz.driver <ID> [libFuzzer options] [corpus dir]
    python3-vt -m zcv.fuzz.driver <ID> --decode FILE      (print the case(s) of one input as JSON)
    python3-vt -m zcv.fuzz.driver <ID> --seed-corpus DIR  (write seed inputs)

The property module supplies  fuzz_decode(data: bytes) -> [case, ...]  and the ordinary
evaluate(case); the semantic oracle therefore sits inside the fuzz target.  A failing input
raises, libFuzzer stores it as crash-<sha1>; the runner decodes that file again and evaluates
the plain-data case without Atheris (so replay never depends on the fuzzer).
"""

import importlib
import json
import os
import sys


def main():
    pid = sys.argv[1]
    rest = sys.argv[2:]
    repo = os.environ.get("VERIF_REPO", "/repo")
    sys.path.insert(0, os.path.join(repo, "src"))
    if "--decode" in rest:
        mod = importlib.import_module("zcv.props.%s" % pid.lower())
        data = open(rest[rest.index("--decode") + 1], "rb").read()
        print(json.dumps(mod.fuzz_decode(data), ensure_ascii=True, default=repr))
        return 0
    if "--seed-corpus" in rest:
        mod = importlib.import_module("zcv.props.%s" % pid.lower())
        d = rest[rest.index("--seed-corpus") + 1]
        os.makedirs(d, exist_ok=True)
        for i, b in enumerate(mod.fuzz_seeds()):
            with open(os.path.join(d, "seed-%03d" % i), "wb") as f:
                f.write(b)
        return 0
    import atheris
    with atheris.instrument_imports(include=["ZConfig"]):
        import ZConfig  # noqa: F401
        import ZConfig.loader  # noqa: F401
        import ZConfig.cfgparser  # noqa: F401
        import ZConfig.substitution  # noqa: F401
        import ZConfig.matcher  # noqa: F401
        import ZConfig.datatypes  # noqa: F401
        import ZConfig.schemaless  # noqa: F401
        import ZConfig.cmdline  # noqa: F401
    mod = importlib.import_module("zcv.props.%s" % pid.lower())

    def target(data):
        for case in mod.fuzz_decode(data):
            fl = mod.evaluate(case)
            if fl:
                raise AssertionError("zcv oracle: %s :: %s" % (fl[0]["sig"], fl[0]["detail"][:300]))

    atheris.Setup([sys.argv[0]] + rest, target)
    atheris.Fuzz()
    return 0


if __name__ == "__main__":
    sys.exit(main())
