"""Runner: tiers, seeds, sharding, bucketing, shrinking, evidence, replay.

usage: python -m zcv.runner <ID> <quick|thorough> [--replay FILE]

A property module ``zcv.props.cNN`` provides

    ID, LEVEL, RULE, ASSUMPTIONS
    shards(tier, seed) -> [spec, ...]          plain-data shard descriptions
    run_shard(spec)    -> zcv.runner.Result    executed in a worker process
    evaluate(case)     -> [Failure-dict, ...]  on one plain-data case (replay)
    optional: check_coverage(tier, counters) -> [problem strings]   (exit 2)
    optional: SHRINK_SKIP = set of dict keys the generic shrinker leaves alone
    optional: excluded(case) ...

Exit status: 0 property held (KNOWN-FINDING lines allowed), 1 violation
(``VIOLATION property=<id> replay=<path>``), 2 harness problem (never a
violation).
"""

import collections
import hashlib
import importlib
import json
import multiprocessing
import os
import shutil
import sys
import tempfile
import time
import traceback

HERE = os.path.dirname(os.path.dirname(os.path.abspath(__file__)))
REPO = os.environ.get("VERIF_REPO", "/repo")
JOBS = int(os.environ.get("VERIF_JOBS", "16"))
MAX_SAMPLES = 12
MAX_REPORTED = 6


def seed_value():
    try:
        return int(os.environ.get("VERIF_SEED", "1"))
    except ValueError:
        return 1


from zcv.core import Result, h64, failure  # noqa: E402,F401


# --------------------------------------------------------------------------
# environment


def _setup_paths():
    src = os.path.join(REPO, "src")
    if not os.path.isdir(os.path.join(src, "ZConfig")):
        print("harness: no ZConfig sources under %s" % src)
        sys.exit(2)
    if src in sys.path:
        sys.path.remove(src)
    sys.path.insert(0, src)
    for k in [k for k in sys.modules if k == "ZConfig" or k.startswith("ZConfig.")]:
        del sys.modules[k]
    import ZConfig
    real = os.path.realpath(os.path.dirname(ZConfig.__file__))
    want = os.path.realpath(os.path.join(src, "ZConfig"))
    if real != want:
        print("harness: imported ZConfig from %s, wanted %s" % (real, want))
        sys.exit(2)


def _reexec_if_needed():
    if os.environ.get("ZCV_CHILD") == "1":
        return
    env = dict(os.environ)
    env["ZCV_CHILD"] = "1"
    env["PYTHONHASHSEED"] = "0"
    env["PYTHONDONTWRITEBYTECODE"] = "1"
    scratch = tempfile.mkdtemp(prefix="zcv-run-")
    env["ZCV_SCRATCH"] = scratch
    env["PYTHONPYCACHEPREFIX"] = os.path.join(scratch, "pyc")
    env["TMPDIR"] = os.path.join(scratch, "tmp")
    os.makedirs(env["TMPDIR"])
    env["PYTHONPATH"] = HERE + os.pathsep + env.get("PYTHONPATH", "")
    import subprocess
    try:
        rc = subprocess.call([sys.executable, "-m", "zcv.runner"] + sys.argv[1:],
                             env=env, cwd=HERE)
    finally:
        shutil.rmtree(scratch, ignore_errors=True)
    sys.exit(rc)


# --------------------------------------------------------------------------
# known findings


def load_known(prop_id):
    """-> {sig: description} for ``open:`` lines of this property."""
    known = {}
    path = os.path.join(HERE, "known_findings.txt")
    if not os.path.exists(path):
        return known
    with open(path, encoding="utf-8") as f:
        for line in f:
            line = line.strip()
            if not line.startswith("open:"):
                continue
            body = line[len("open:"):].strip()
            head, _, desc = body.partition("::")
            fields = dict(p.split("=", 1) for p in head.split() if "=" in p)
            if fields.get("property") == prop_id and "sig" in fields:
                known[fields["sig"]] = desc.strip()
    return known


# --------------------------------------------------------------------------
# generic structural shrinker (ddmin flavoured, greedy, bounded)


def _paths(obj, skip, prefix=()):
    if isinstance(obj, dict):
        for k in sorted(obj):
            if k in skip:
                continue
            yield from _paths(obj[k], skip, prefix + (k,))
    elif isinstance(obj, list):
        yield prefix, "list"
        for i, v in enumerate(obj):
            yield from _paths(v, skip, prefix + (i,))
    elif isinstance(obj, str):
        if obj:
            yield prefix, "str"
    elif isinstance(obj, bool):
        return
    elif isinstance(obj, int):
        if obj:
            yield prefix, "int"


def _get(obj, path):
    for p in path:
        obj = obj[p]
    return obj


def _set(obj, path, value):
    if not path:
        return value
    obj = json.loads(json.dumps(obj))
    cur = obj
    for p in path[:-1]:
        cur = cur[p]
    cur[path[-1]] = value
    return obj


def _candidates(value, kind):
    if kind in ("list", "str"):
        n = len(value)
        size = n
        seen = set()
        while size >= 1:
            for start in range(0, n, size):
                cand = value[:start] + value[start + size:]
                key = json.dumps(cand) if kind == "list" else cand
                if key not in seen and len(cand) < n:
                    seen.add(key)
                    yield cand
            size //= 2
    elif kind == "int":
        for cand in (0, value // 2, value - 1):
            if cand != value and abs(cand) < abs(value):
                yield cand


def shrink(case, pred, skip=(), budget_s=25.0, max_evals=4000):
    """Greedy structural minimisation of plain data ``case`` under ``pred``."""
    t0 = time.time()
    evals = 0
    skip = set(skip)
    improved = True
    while improved:
        improved = False
        try:
            paths = list(_paths(case, skip))
        except Exception:
            break
        for path, kind in paths:
            try:
                value = _get(case, path)
            except (KeyError, IndexError, TypeError):
                continue
            if (kind == "list") != isinstance(value, list) or \
               (kind == "str") != isinstance(value, str):
                continue
            for cand in _candidates(value, kind):
                if time.time() - t0 > budget_s or evals >= max_evals:
                    return case
                evals += 1
                trial = _set(case, path, cand)
                ok = False
                try:
                    ok = pred(trial)
                except Exception:
                    ok = False
                if ok:
                    case = trial
                    improved = True
                    break
            if improved:
                break
    return case


# --------------------------------------------------------------------------
# worker plumbing


def _worker(args):
    modname, spec = args
    try:
        mod = importlib.import_module(modname)
        res = mod.run_shard(spec)
        return ("ok", spec, res.pack())
    except BaseException:
        return ("crash", spec, traceback.format_exc())


def _pool_init():
    # every worker: own temp dir inside the run's scratch
    base = os.environ.get("TMPDIR") or tempfile.gettempdir()
    d = tempfile.mkdtemp(prefix="w%d-" % os.getpid(), dir=base)
    os.environ["TMPDIR"] = d
    tempfile.tempdir = d


def sigs_of(mod, case):
    return [f["sig"] for f in mod.evaluate(case)]


def main(argv=None):
    argv = list(sys.argv[1:] if argv is None else argv)
    if len(argv) < 1:
        print(__doc__)
        return 2
    _reexec_if_needed()
    prop_id = argv[0].upper()
    replay_file = None
    tier = os.environ.get("VERIF_TIER", "quick")
    rest = argv[1:]
    while rest:
        a = rest.pop(0)
        if a in ("quick", "thorough"):
            tier = a
        elif a == "--replay":
            replay_file = rest.pop(0)
        else:
            print("harness: unknown argument %r" % a)
            return 2
    _setup_paths()
    try:
        mod = importlib.import_module("zcv.props.%s" % prop_id.lower())
    except ImportError:
        traceback.print_exc()
        print("harness: no check for %s" % prop_id)
        return 2
    seed = seed_value()
    t0 = time.time()

    if replay_file:
        with open(replay_file, encoding="utf-8") as f:
            doc = json.load(f)
        case = doc["case"] if isinstance(doc, dict) and "case" in doc else doc
        fails = mod.evaluate(case)
        known = load_known(prop_id)
        new = [f for f in fails if f["sig"] not in known]
        for f in fails:
            if f["sig"] in known:
                print("KNOWN-FINDING: property=%s sig=%s %s" % (prop_id, f["sig"], known[f["sig"]]))
        if new:
            for f in new:
                print("FAIL sig=%s %s" % (f["sig"], f["detail"][:400]))
            print("VIOLATION property=%s replay=%s" % (prop_id, replay_file))
            return 1
        print("replay passes: property=%s %s" % (prop_id, replay_file))
        return 0

    known = load_known(prop_id)
    total = Result()
    failures = []              # (sig, case, detail, origin)
    fail_counts = collections.Counter()
    exhaustive_parts = []
    notes = []

    # 1. committed regression corpus
    rdir = os.path.join(HERE, "replays", prop_id)
    replayed = 0
    if os.path.isdir(rdir):
        for name in sorted(os.listdir(rdir)):
            if not name.endswith(".json"):
                continue
            path = os.path.join(rdir, name)
            with open(path, encoding="utf-8") as f:
                doc = json.load(f)
            case = doc["case"] if isinstance(doc, dict) and "case" in doc else doc
            replayed += 1
            try:
                fl = mod.evaluate(case)
            except Exception:
                traceback.print_exc()
                print("harness: replay %s crashed the harness" % path)
                return 2
            for f in fl:
                failures.append((f["sig"], f["case"], f["detail"], path))
                fail_counts[f["sig"]] += 1

    # 2. campaigns
    specs = mod.shards(tier, seed)
    ctx = multiprocessing.get_context("fork")
    crashed = []
    # one fresh (forked) process per shard: no state of an earlier shard -- Hypothesis caches,
    # imported-module state -- can influence a later one, whatever the scheduling
    with ctx.Pool(min(JOBS, max(1, len(specs))), initializer=_pool_init, maxtasksperchild=1) as pool:
        for status, spec, payload in pool.imap_unordered(
                _worker, [(mod.__name__, s) for s in specs]):
            if status != "ok":
                crashed.append((spec, payload))
                continue
            total.evaluations += payload["evaluations"]
            total.nontrivial_count += payload["nontrivial_count"]
            total.nontrivial_hashes |= payload["nontrivial_hashes"]
            total.counters.update(payload["counters"])
            for s in payload["samples"]:
                if len(total.samples) < MAX_SAMPLES:
                    total.samples.append(s)
            for f in payload["failures"]:
                failures.append((f["sig"], f["case"], f["detail"], None))
            fail_counts.update(payload["fail_counts"])
            exhaustive_parts.extend(payload["exhaustive_parts"])
            notes.extend(payload["notes"])
    if crashed:
        for spec, tb in crashed[:3]:
            print("harness: shard %r crashed:\n%s" % (spec, tb))
        return 2

    # 3. bucket
    buckets = collections.OrderedDict()
    for sig, case, detail, origin in failures:
        buckets.setdefault(sig, []).append((case, detail, origin))
    new_sigs = [s for s in buckets if s not in known]
    violations = 0
    known_hits = []
    for sig in buckets:
        if sig in known:
            known_hits.append(sig)
            print("KNOWN-FINDING: property=%s sig=%s %s (%d cases this run)"
                  % (prop_id, sig, known[sig], fail_counts[sig]))
    fdir = os.path.join(os.environ.get("ZCV_FAILURES_DIR") or os.path.join(HERE, "failures"), prop_id)
    reported = []
    for sig in new_sigs:
        violations += 1
        if len(reported) >= MAX_REPORTED:
            continue
        cases = buckets[sig]
        # origin replay files are reported as they are
        origin = next((o for c, d, o in cases if o), None)
        case, detail, _ = min(cases, key=lambda c: len(json.dumps(c[0], default=repr)))
        if origin is None:
            skip = getattr(mod, "SHRINK_SKIP", ())
            if not getattr(mod, "NO_SHRINK", False):
                try:
                    small = shrink(case, lambda c: sig in sigs_of(mod, c), skip=skip,
                                   budget_s=15.0 if tier == "quick" else 60.0)
                    fl = [f for f in mod.evaluate(small) if f["sig"] == sig]
                    if fl:
                        case, detail = small, fl[0]["detail"]
                except Exception:
                    pass
            os.makedirs(fdir, exist_ok=True)
            name = "%s.json" % hashlib.blake2b(sig.encode(), digest_size=6).hexdigest()
            path = os.path.join(fdir, name)
            with open(path, "w", encoding="utf-8") as f:
                json.dump({"property": prop_id, "sig": sig, "detail": detail,
                           "case": case, "seed": seed, "tier": tier},
                          f, indent=1, ensure_ascii=True, default=repr)
        else:
            path = origin
        reported.append((sig, path, detail))
        print("FAIL sig=%s count=%d :: %s" % (sig, fail_counts[sig], detail[:600]))
        print("VIOLATION property=%s replay=%s" % (prop_id, os.path.relpath(path, HERE)))

    # 4. generator health
    problems = []
    if hasattr(mod, "check_coverage"):
        problems = list(mod.check_coverage(tier, total.counters) or [])

    # 5. evidence
    distinct = total.nontrivial_count + len(total.nontrivial_hashes)
    coverage = {
        "evaluations": int(total.evaluations),
        "distinct_nontrivial": int(distinct),
        "rule": mod.RULE,
        "samples": total.samples[:MAX_SAMPLES],
        "exhaustive": bool(exhaustive_parts) and bool(getattr(mod, "ALL_EXHAUSTIVE", False)),
        "exhaustive_parts": sorted(set(exhaustive_parts)),
        "classes": {k: v for k, v in sorted(total.counters.items())},
        "replayed_corpus_files": replayed,
        "failure_buckets": {s: fail_counts[s] for s in buckets},
        "known_findings_hit": known_hits,
        "generator_problems": problems,
        "notes": sorted(set(notes)),
        "shards": len(specs),
    }
    ev = {
        "property_id": prop_id,
        "tier": tier,
        "seed": seed,
        "level": mod.LEVEL,
        "coverage": coverage,
        "assumptions": list(getattr(mod, "ASSUMPTIONS", [])),
        "wall_s": round(time.time() - t0, 2),
        "violations": violations,
    }
    evdir = os.environ.get("ZCV_EVIDENCE_DIR") or os.path.join(HERE, "evidence")
    os.makedirs(evdir, exist_ok=True)
    with open(os.path.join(evdir, "%s.json" % prop_id), "w",
              encoding="utf-8") as f:
        json.dump(ev, f, indent=1, ensure_ascii=True, default=repr)
        f.write("\n")

    print("%s %s seed=%d: %d evaluations, %d distinct non-trivial, %d failure buckets "
          "(%d known), %.1fs" % (prop_id, tier, seed, total.evaluations, distinct,
                                 len(buckets), len(known_hits), time.time() - t0))
    if violations:
        return 1
    if problems:
        for p in problems:
            print("harness: generator problem: %s" % p)
        return 2
    return 0


if __name__ == "__main__":
    sys.exit(main())
