NOT_YET = {}
reg("C04", "exploration",
    "Exhaustive comparison of ZConfig.substitution.substitute/isname with an independently written scanner on every string over a 10-character class-representative alphabet up to length 6 (quick) / 7 (thorough) under every defined/undefined assignment of the referenced names, plus Hypothesis Unicode strings; complete for the enumerated domain, sampling beyond it.",
    "Trusted: the reference scanner zcv/model.py (written from docs/py-mod-subst.rst, no regular expressions). Zones U8/U11 (DESIGN §5) are executed but not compared.",
    "exhaustive enumeration + Hypothesis random strings vs. reference model (differential oracle)")
reg("C03", "exploration",
    "Differential check of the line grammar against an independently written line scanner at two observation points (schemaless loader result; ZConfigParser driven with a recording context): complete for all single lines of up to 4/5 tokens over a 16-token class-representative alphabet in three contexts and for all texts of up to 4 lines over 14 line shapes (3 lines over 28 shapes with directives); Hypothesis sampling for long, deep texts.",
    "Trusted: zcv/model.py classify_line/ref_events (hand-written from docs/using-zconfig.rst, no regular expressions). Not compared: lone '$' (C04), %define redefinition (C05), line numbers (C08).",
    "exhaustive enumeration + Hypothesis texts vs. reference line scanner (differential oracle)")
reg("C17", "exploration",
    "Round-trip oracle load -> str -> load -> str over the C03 corpus restricted to accepted texts: complete for all single lines of up to 4/5 tokens (bare and nested) and all texts of up to 3/4 lines over 26 line shapes chosen to contain '$$', grammar characters in values, empty values, repeated keys, mixed case, trailing-slash headers and imports; Hypothesis sampling beyond.",
    "Trusted: structural equality as read through the public dict/attribute interface of schemaless.Section. Texts the loader refuses are outside the quantifier.",
    "exhaustive enumeration + Hypothesis texts, round-trip oracle")
reg("C09", "exploration",
    "Differential check of all 21 string-valued stock datatypes (plus existing-*/locale on a fixed tree) against hand-written reference conversions: complete for every string up to 5..8 characters over per-type class-representative alphabets, all 19^4 dotted quads over boundary octets, all letter-case variants of the boolean words; Hypothesis grammar strings up to length 200 with all one-edit neighbours, structured IPv6/host:port forms and full-Unicode text beyond. Idempotence of key-normalising converters.",
    "Trusted: zcv/refdt.py (written from docs/standard-datatypes.rst; no regular expressions; IPv6 validity cross-checked between a hand-written RFC 4291 recogniser, ipaddress and inet_pton -- disagreements are not compared). float() of the language is the float reference. 'Every length' is bounded enumeration + long generated strings, not a language-equivalence proof.",
    "exhaustive enumeration + Hypothesis grammar strings and one-edit neighbours vs. reference conversions (differential oracle)")
reg("C05", "exploration",
    "Model-based check of the %define namespace: every sequence of up to 3/4 steps over a 41-symbol alphabet (4 spellings of 3 names x 8 values, illegal names, 5 references, include begin/end) and up to 5/6 steps over a 12-symbol core alphabet, rendered into a main resource and up to 2 levels of included resources, loaded twice against one schema object and followed by a use-without-define probe; Hypothesis sequences up to 8 steps with arbitrary values. Complete for the enumerated sequences.",
    "Trusted: zcv/model.py ref_read/ref_subst (one namespace, expansion at definition time, redefinition compared on expanded values). In-memory resources via an overridden ConfigLoader.openResource. U11 (names legal only after lower-casing) not compared.",
    "exhaustive enumeration of directive sequences + Hypothesis sequences vs. reference namespace model; repeated-load (history) comparison")
reg("C01", "exploration",
    "Model-based differential check of acceptance: random schemas of the generated family (as a plain-data AST rendered to XML) and six schema-guided texts each with 0..3 injected deviations; the verdict of an independently written reference loader (ACCEPT / REJECT by a named rule / UNSPECIFIED) is compared with what ZConfig.loadConfigFile does. Every semantic rule class of the statement is counted in the evidence.",
    "Trusted: zcv/refload.py, zcv/model.py, zcv/refdt.py (DESIGN appendix A). Zones U1-U4 (declaration-order dependent resolutions) are executed but not compared. Sampling, not exhaustive.",
    "random generation of schemas and schema-guided faulty texts vs. reference loader (model-based differential oracle)")
reg("C02", "exploration",
    "For every text of the C01 campaign that is accepted, the digest of the returned value tree (attribute sets, converted values/defaults/None, multikey and multisection order, wildcard mappings, section datatype applied once, type and lower-cased name) is compared with the tree built by the reference loader with reference conversions; an aliasing probe mutates every returned list/dict and reloads.",
    "Trusted: zcv/refload.py tree construction and zcv/refdt.py conversions. Acceptance differences are C01's business.",
    "random generation + reference value-tree model (differential oracle) + mutate-and-reload aliasing probe")
reg("C16", "exploration",
    "For accepted texts of the C01 family with handler attributes on random subsets of items at all depths: length, call order, delivered values (digest-equal to the reference and identical to objects of the returned tree) are compared with the reference loader's handler entry list; incomplete maps and case-variant duplicates must raise ConfigurationError with zero calls; None entries are skipped.",
    "Trusted: zcv/refload.py entry order (post-order over closed sections, items in schema order, schema handler last). Handler names that are not basic-keys (U14) are not generated.",
    "random generation + reference handler-entry model; four handler-map variants per accepted text")
reg("C08", "exploration",
    "Single-fault injection: texts the reference accepts get exactly one deviation of the kinds the statement lists at a random position/depth (both spellings of empty sections), are split into up to 3 included resources (same/sub/parent directory) and loaded three ways (in-memory resources with URLs, real files through the real openResource, a bare file object without URL); the raised error must carry the line and URL the reference attributes the fault to; conversion errors also the offending text and original ValueError.",
    "Trusted: line attribution of zcv/refload.py (single pass in reading order). No line is promised for top-level missing items, section-datatype failures, missing/cyclic include targets and bad %import.",
    "random single-fault injection at every kind/position + reference culprit-line model (differential oracle)")
reg("C06", "exploration",
    "Metamorphic check with real files: texts of the C01 family (valid and invalid, with %define/$ flows, some with unbalanced nesting) are split by moving 1..3 balanced line ranges (nested cuts allowed) into files in the same, a sub- or the parent directory; loading the split version by path must give the digest-equal value tree or also be rejected; unbalanced cuts of accepted texts must be rejected.",
    "No reference model: two loads of the real code are compared. Only the fact of rejection is compared, not the error.",
    "random generation + metamorphic relation (textual inclusion) over real include files")
reg("C15", "exploration",
    "Metamorphic check: up to 5 composed layout rewrites (indentation incl. Unicode blanks, trailing whitespace, blank/comment lines, letter case of types/names/defined names/references/keys, both spellings of empty sections, swaps of adjacent key lines and of key lines with section blocks) applied to C01 texts and to texts for the shipped logger and basic-mapping components must leave the value tree or the fact of rejection unchanged.",
    "No reference model. Key case is varied only where every key type of the schema is case-insensitive; lines are never moved across directives; logger factories are compared by configuration, not called.",
    "random generation + metamorphic relation (layout rewrites)")
reg("C14", "exploration",
    "Metamorphic check: for accepted C01 texts with sections, 1..4 override specifiers (by name / by type / mixed case, depths 0..3, single, multi and wildcard keys, absent top-level keys, missing sections and keys, convertible and unconvertible values, '$' and '=' in values) are applied both through loadConfigFile(overrides=...) and as the hand edit the statement describes; outcomes must be equal (digest-equal tree or both rejected); unresolvable paths must be rejected; unconvertible values must surface as DataConversionError; malformed specifiers must be refused by addOption with ConfigurationSyntaxError.",
    "The hand edit is zcv's own text surgery (first matching child section in file order; lines of the same normalised key dropped; '$' doubled). U15 components and values with surrounding blanks are not generated.",
    "random generation + metamorphic relation (override == text edit)")
reg("C07", "exploration",
    "Robustness fuzzing with a class oracle: C01 texts under 1..4 character/token/line mutations (every grammar metacharacter inserted), mutated override specifier lists, include graphs over three real files (self, mutual, missing, directory includes; good and bad %import) and the validator command on those files; every outcome must be a return or a ZConfig.ConfigurationError (a datatype's own exception passes through unchanged); the validator must return 0/1 consistently with direct loads and print exactly one message per rejected file. Failures are bucketed by (exception type, innermost ZConfig function).",
    "Exotic URL syntax in %include (U12) is outside the quantifier and not generated. Datatypes of generated schemas reject with ValueError.",
    "mutation fuzzing of texts, override lists and include graphs + exception-class oracle with root-cause bucketing")
reg("C18", "exploration",
    "(a) Metamorphic: random 3-level directory layouts with URL-hostile file and directory names (blanks, & ; [ ] ~ + non-ASCII) holding a schema with an extends chain and <import src> across directories and a configuration with nested %include across directories; each is loaded by absolute path, relative path, file: URL and absolute-/relative-named file objects from four current directories (inside and outside the tree) and all results must be digest-equal, schema.url and error URLs must be file:///; fragment-carrying %include / extends / src / top URLs must be rejected. (b) Reference check of isPath, urlnormalize, urldefrag on every string of length <= 6/7 and of urljoin (5 bases) and normalizeURL on every string of length <= 5/6 over {a C : / \\ # . f i l e}.",
    "(a) no model; (b) trusted: the small reference functions in zcv/props/c18.py. 'file://x' (U13): only the 'file:///' prefix is asserted. Contents are \\n-only.",
    "exhaustive enumeration vs. reference functions + random directory layouts with a metamorphic relation across entry points")
reg("C10", "exploration",
    "Valid documents of the generated family (decorated with description/example/metadefault) must load; for each of ~70 edit kinds grouped under the rules R1..R14 of the statement one edit (quick: a random applicable position per kind; thorough: every position) and random pairs of edits are applied to the XML tree and the result must raise ZConfig.SchemaError at schema-load time.",
    "Each edit encodes one rule as named in the statement. Zones U4/U6/U17 and unimportable dotted datatype names are not generated. Documents stay well-formed XML.",
    "random generation of valid schema documents + rule-violating edits at every applicable position (negative oracle: SchemaError)")
