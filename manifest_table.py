NOT_YET = {}
reg("C04", "exploration",
    "Exhaustive comparison of ZConfig.substitution.substitute/isname with an independently written scanner on every string over a 10-character class-representative alphabet up to length 6 (quick) / 7 (thorough) under every defined/undefined assignment of the referenced names, plus Hypothesis Unicode strings; complete for the enumerated domain, sampling beyond it.",
    "Trusted: the reference scanner zcv/model.py (written from docs/py-mod-subst.rst, no regular expressions). Zones U8/U11 (DESIGN §5) are executed but not compared.",
    "exhaustive enumeration + Hypothesis random strings vs. reference model (differential oracle)")
