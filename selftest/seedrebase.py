#!/venv/bin/python
"""Re-express every stored seeded patch against the current /repo HEAD (so that `git apply`
works without fuzz).  A patch that only applies with `patch -p1` fuzz is regenerated from the
patched scratch tree; one that does not apply at all is reported."""
import glob, os, shutil, subprocess, tempfile
for d in sorted(glob.glob("/verif/seeded/*/")):
    pf = d + "patch.diff"
    scratch = tempfile.mkdtemp(prefix="zcv-rb-")
    try:
        subprocess.run("git -C /repo archive HEAD | tar -x -C %s" % scratch, shell=True, check=True)
        subprocess.run(["git", "init", "-q"], cwd=scratch)
        subprocess.run("git add -A && git -c user.email=x@x -c user.name=x commit -qm base", shell=True, cwd=scratch)
        if subprocess.run(["git", "apply", "--check", pf], cwd=scratch, capture_output=True).returncode == 0:
            continue
        p = subprocess.run(["patch", "-p1", "--no-backup-if-mismatch", "-i", pf], cwd=scratch, capture_output=True, text=True)
        if p.returncode != 0:
            print(os.path.basename(d.rstrip("/")), "DOES NOT APPLY:", p.stdout[-200:])
            continue
        new = subprocess.run(["git", "diff"], cwd=scratch, capture_output=True, text=True).stdout
        open(pf, "w").write(new)
        print(os.path.basename(d.rstrip("/")), "regenerated against HEAD")
    finally:
        shutil.rmtree(scratch, ignore_errors=True)
