#!/venv/bin/python
"""Classical mutation sweep (not a registered check).

usage: mutsweep.py gen                      -> /tmp/zcv-mut/mutants.jsonl  (all first-order mutants)
       mutsweep.py survivors [N procs]      -> /tmp/zcv-mut/survivors.jsonl (mutants the repository's own
                                               test suite does not notice: baseline 353 passed / 1 failed)
       mutsweep.py run <sample size> [seed] -> /tmp/zcv-mut/results.jsonl  (the relevant checks, quick tier,
                                               against a sample of survivors; stops at the first catch)
Mutants are single AST edits of src/ZConfig (comparison / boolean operator swaps, negated
conditions, integer and boolean constants, dropped str-method calls, break/continue swaps,
removed statements).  Scratch copies live under /tmp and are removed.
"""
import ast, copy, json, os, random, re, shutil, subprocess, sys, tempfile
from concurrent.futures import ProcessPoolExecutor

SRC = "/repo/src/ZConfig"
OUT = "/tmp/zcv-mut"
FILES = {
    "substitution.py": ["C04", "C05"],
    "cfgparser.py": ["C03", "C05", "C08", "C17", "C06", "C15"],
    "matcher.py": ["C01", "C02", "C16", "C08"],
    "info.py": ["C01", "C02", "C10", "C12", "C13", "C11"],
    "schema.py": ["C10", "C11", "C02", "C18", "C19"],
    "loader.py": ["C18", "C19", "C06", "C12", "C07", "C16", "C13"],
    "cmdline.py": ["C14", "C07"],
    "datatypes.py": ["C09", "C02"],
    "url.py": ["C18"],
    "schemaless.py": ["C17", "C03"],
    "validator.py": ["C07"],
    "__init__.py": ["C08", "C04", "C20", "C07"],
    "components/logger/logger.py": ["C20"],
    "components/logger/handlers.py": ["C20"],
    "components/logger/formatter.py": ["C20"],
    "components/logger/loghandler.py": ["C20"],
    "components/logger/datatypes.py": ["C20"],
    "components/logger/factory.py": ["C20"],
    "components/basic/mapping.py": ["C15"],
}
CMP = {ast.Eq: ast.NotEq, ast.NotEq: ast.Eq, ast.Lt: ast.LtE, ast.LtE: ast.Lt, ast.Gt: ast.GtE, ast.GtE: ast.Gt,
       ast.Is: ast.IsNot, ast.IsNot: ast.Is, ast.In: ast.NotIn, ast.NotIn: ast.In}
STRMETH = {"strip", "lower", "upper", "rstrip", "lstrip", "copy"}


def mutants_of(path):
    src = open(path).read()
    tree = ast.parse(src)
    nodes = list(ast.walk(tree))
    out = []

    def emit(desc, lineno, mutate):
        t = copy.deepcopy(tree)
        ns = list(ast.walk(t))
        mutate(ns)
        try:
            code = ast.unparse(t)
            compile(code, path, "exec")
        except Exception:
            return
        out.append({"desc": desc, "line": lineno, "code": code})

    for i, n in enumerate(nodes):
        ln = getattr(n, "lineno", 0)
        if isinstance(n, ast.Compare):
            for j, op in enumerate(n.ops):
                if type(op) in CMP:
                    def m(ns, i=i, j=j, new=CMP[type(op)]):
                        ns[i].ops[j] = new()
                    emit("compare %s->%s" % (type(op).__name__, CMP[type(op)].__name__), ln, m)
        elif isinstance(n, ast.BoolOp):
            def m(ns, i=i):
                ns[i].op = ast.Or() if isinstance(ns[i].op, ast.And) else ast.And()
            emit("boolop swap", ln, m)
        elif isinstance(n, (ast.If, ast.While)) or isinstance(n, ast.IfExp):
            def m(ns, i=i):
                ns[i].test = ast.UnaryOp(op=ast.Not(), operand=ns[i].test)
            emit("negate condition", ln, m)
        elif isinstance(n, ast.Constant) and isinstance(n.value, bool):
            def m(ns, i=i):
                ns[i].value = not ns[i].value
            emit("bool constant flip", ln, m)
        elif isinstance(n, ast.Constant) and isinstance(n.value, int) and not isinstance(n.value, bool) and abs(n.value) < 70000:
            for d in (1, -1):
                def m(ns, i=i, d=d):
                    ns[i].value = ns[i].value + d
                emit("int constant %+d" % d, ln, m)
        elif isinstance(n, ast.Call) and isinstance(n.func, ast.Attribute) and n.func.attr in STRMETH and not n.args:
            def m(ns, i=i):
                call = ns[i]
                for p in ns:
                    for f, v in ast.iter_fields(p):
                        if v is call:
                            setattr(p, f, call.func.value)
                        elif isinstance(v, list):
                            for k, x in enumerate(v):
                                if x is call:
                                    v[k] = call.func.value
            emit("drop .%s()" % n.func.attr, ln, m)
        elif isinstance(n, ast.Break):
            def m(ns, i=i):
                b = ns[i]
                for p in ns:
                    for f, v in ast.iter_fields(p):
                        if isinstance(v, list):
                            for k, x in enumerate(v):
                                if x is b:
                                    v[k] = ast.Continue()
            emit("break->continue", ln, m)
        elif isinstance(n, ast.Continue):
            def m(ns, i=i):
                b = ns[i]
                for p in ns:
                    for f, v in ast.iter_fields(p):
                        if isinstance(v, list):
                            for k, x in enumerate(v):
                                if x is b:
                                    v[k] = ast.Break()
            emit("continue->break", ln, m)
        elif isinstance(n, (ast.Expr, ast.Assign, ast.AugAssign)) and not (isinstance(n, ast.Expr) and isinstance(n.value, ast.Constant)):
            def m(ns, i=i):
                st = ns[i]
                for p in ns:
                    for f, v in ast.iter_fields(p):
                        if isinstance(v, list):
                            for k, x in enumerate(v):
                                if x is st:
                                    v[k] = ast.Pass()
            emit("remove statement", ln, m)
        elif isinstance(n, ast.Return) and n.value is not None and not (isinstance(n.value, ast.Constant) and n.value.value is None):
            def m(ns, i=i):
                ns[i].value = ast.Constant(value=None)
            emit("return None", ln, m)
    # de-duplicate identical code
    seen, uniq = set(), []
    for mu in out:
        if mu["code"] in seen:
            continue
        seen.add(mu["code"])
        uniq.append(mu)
    return uniq


def cmd_gen():
    os.makedirs(OUT, exist_ok=True)
    n = 0
    with open(os.path.join(OUT, "mutants.jsonl"), "w") as f:
        for rel in FILES:
            ms = mutants_of(os.path.join(SRC, rel))
            for k, mu in enumerate(ms):
                mu["file"] = rel
                mu["id"] = "%s#%d" % (rel, k)
                f.write(json.dumps(mu) + "\n")
                n += 1
            print(rel, len(ms))
    print("total", n)


def _scratch():
    d = tempfile.mkdtemp(prefix="zcv-ms-")
    shutil.rmtree(d)
    shutil.copytree("/repo", d, ignore=shutil.ignore_patterns(".git", "__pycache__", "*.egg-info", ".tox"))
    return d


def _test_one(mu):
    d = _WORK["dir"]
    path = os.path.join(d, "src", "ZConfig", mu["file"])
    orig = open(path).read()
    try:
        open(path, "w").write(mu["code"])
        env = dict(os.environ, PYTHONPATH=os.path.join(d, "src"), PYTHONDONTWRITEBYTECODE="1")
        try:
            p = subprocess.run(["/venv/bin/python", "-m", "pytest", "-q", "-x", "-p", "no:cacheprovider", "--deselect",
                                "src/ZConfig/tests/test_validator.py::TestValidator::test_schema_only"],
                               cwd=d, env=env, capture_output=True, text=True, timeout=120)
        except subprocess.TimeoutExpired:
            return mu["id"], "timeout"
        ok = p.returncode == 0 and re.search(r"(\d+) passed", p.stdout) and int(re.search(r"(\d+) passed", p.stdout).group(1)) == 352
        return mu["id"], "survivor" if ok else "killed"
    finally:
        open(path, "w").write(orig)


_WORK = {}


def _init():
    _WORK["dir"] = _scratch()
    import atexit
    atexit.register(lambda: shutil.rmtree(_WORK["dir"], ignore_errors=True))


def cmd_survivors(procs):
    mus = [json.loads(l) for l in open(os.path.join(OUT, "mutants.jsonl"))]
    res = {}
    with ProcessPoolExecutor(procs, initializer=_init) as ex:
        for k, (mid, verdict) in enumerate(ex.map(_test_one, mus, chunksize=4)):
            res[mid] = verdict
            if k % 200 == 0:
                print(k, len(mus), flush=True)
    with open(os.path.join(OUT, "survivors.jsonl"), "w") as f:
        for mu in mus:
            if res.get(mu["id"]) == "survivor":
                f.write(json.dumps(mu) + "\n")
    import collections
    print(collections.Counter(res.values()))
    shutil.rmtree("/tmp", ignore_errors=False) if False else None


def cmd_run(sample, seed):
    mus = [json.loads(l) for l in open(os.path.join(OUT, "survivors.jsonl"))]
    done = set()
    rp = os.path.join(OUT, "results.jsonl")
    if os.path.exists(rp):
        done = {json.loads(l)["id"] for l in open(rp)}
    rng = random.Random(seed)
    rng.shuffle(mus)
    todo = [m for m in mus if m["id"] not in done][:sample]
    d = _scratch()
    try:
        for mu in todo:
            path = os.path.join(d, "src", "ZConfig", mu["file"])
            orig = open(path).read()
            open(path, "w").write(mu["code"])
            verdict, by = "MISSED", None
            tried = []
            try:
                for pid in FILES[mu["file"]]:
                    env = dict(os.environ, VERIF_REPO=d, ZCV_EVIDENCE_DIR=os.path.join(d, "ev"), ZCV_FAILURES_DIR=os.path.join(d, "fail"))
                    p = subprocess.run([os.path.join(os.path.dirname(os.path.dirname(os.path.abspath(__file__))), "check"), pid, "quick"],
                                       env=env, capture_output=True, text=True)
                    tried.append((pid, p.returncode))
                    if p.returncode == 1:
                        verdict, by = "caught", pid
                        break
            finally:
                open(path, "w").write(orig)
            rec = {"id": mu["id"], "file": mu["file"], "line": mu["line"], "desc": mu["desc"], "verdict": verdict, "by": by, "tried": tried}
            with open(rp, "a") as f:
                f.write(json.dumps(rec) + "\n")
            print(rec["id"], rec["line"], rec["desc"], verdict, by, flush=True)
    finally:
        shutil.rmtree(d, ignore_errors=True)


if __name__ == "__main__":
    c = sys.argv[1]
    if c == "gen":
        cmd_gen()
    elif c == "survivors":
        cmd_survivors(int(sys.argv[2]) if len(sys.argv) > 2 else 12)
    elif c == "run":
        cmd_run(int(sys.argv[2]), int(sys.argv[3]) if len(sys.argv) > 3 else 1)
