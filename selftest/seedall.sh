#!/bin/bash
# usage: seedall.sh <ID> [extra IDs]  -- runs both seeded changes of /tmp/seeded_out/<ID>
id=$1; shift
for v in a b; do
  /venv/bin/python /verif/selftest/seedrun.py /tmp/seeded_out/$id/$v $id "$@" | /venv/bin/python -c "
import json,sys;d=json.load(sys.stdin);print(d['dir'],'applies',d.get('applies'),'tests',d.get('tests_ok'),'demo',d.get('demo_ok'),{k:(v['verdict'],v['lines'][:1]) for k,v in d.get('checks',{}).items()}, d.get('apply_error',''))"
done
