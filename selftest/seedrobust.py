#!/venv/bin/python
"""usage: seedrobust.py <VERIF_SEED> [name prefix]  -- re-run every kept seeded change
(/verif/seeded/*) against the checks recorded as catching it, at another VERIF_SEED.
Prints one line per change; nothing is stored."""
import glob, json, os, shutil, subprocess, sys, tempfile
seed = sys.argv[1]
prefix = sys.argv[2] if len(sys.argv) > 2 else ""
for d in sorted(glob.glob("/verif/seeded/%s*/" % prefix)):
    name = os.path.basename(d.rstrip("/"))
    meta = json.load(open(d + "meta.json"))
    ids = [k for k, v in meta["checks_run"].items() if v["verdict"] == "CAUGHT"] or [meta["property"]]
    scratch = tempfile.mkdtemp(prefix="zcv-rob-")
    try:
        dst = os.path.join(scratch, "repo")
        shutil.copytree("/repo/src", os.path.join(dst, "src"), ignore=shutil.ignore_patterns("__pycache__", "*.egg-info"))
        p = subprocess.run(["git", "apply", "--whitespace=nowarn", "--include=src/*", d + "patch.diff"], cwd=dst, capture_output=True, text=True)
        if p.returncode:
            print(name, "PATCH-DOES-NOT-APPLY", flush=True)
            continue
        env = dict(os.environ, VERIF_REPO=dst, VERIF_SEED=seed, ZCV_EVIDENCE_DIR=os.path.join(scratch, "ev"),
                   ZCV_FAILURES_DIR=os.path.join(scratch, "fail"))
        res = []
        for pid in ids[:1]:
            r = subprocess.run(["/verif/check", pid, "quick"], env=env, capture_output=True, text=True)
            res.append("%s:%s" % (pid, {0: "MISSED", 1: "caught"}.get(r.returncode, "HARNESS")))
        print(name, " ".join(res), flush=True)
    finally:
        shutil.rmtree(scratch, ignore_errors=True)
