#!/venv/bin/python
"""usage: seedsave.py <ID> <variant a|b> [extra check IDs]
Runs selftest/seedrun.py on /tmp/seeded_out/<ID>/<variant> and, when the change is confirmed
(applies, baseline test result unchanged, demo passes unchanged / fails changed), stores it as
/verif/seeded/<ID>-<variant>/ {patch.diff, demo.py, notes.md, meta.json}."""
import json, os, shutil, subprocess, sys
args = sys.argv[1:]
root, label = "/tmp/seeded_out", None
if "--src" in args:
    i = args.index("--src"); root = args[i + 1]; del args[i:i + 2]
if "--as" in args:
    i = args.index("--as"); label = args[i + 1]; del args[i:i + 2]
pid, var = args[0], args[1]
extra = args[2:]
src = "%s/%s/%s" % (root, pid, var)
label = label or var
r = subprocess.run(["/venv/bin/python", "/verif/selftest/seedrun.py", src, pid] + extra, capture_output=True, text=True)
d = json.loads(r.stdout)
ok = d.get("applies") and d.get("tests_ok") and d.get("demo_ok")
print(pid, var, "confirmed" if ok else "NOT CONFIRMED", {k: v["verdict"] for k, v in d.get("checks", {}).items()},
      "" if ok else json.dumps({k: d.get(k) for k in ("applies", "tests_ok", "tests_passed", "tests_failed", "demo_unchanged_rc", "demo_changed_rc", "apply_error")}))
if not ok:
    sys.exit(1)
dst = "/verif/seeded/%s-%s" % (pid, label)
os.makedirs(dst, exist_ok=True)
for f in ("patch.diff", "demo.py", "notes.md"):
    if os.path.exists(os.path.join(src, f)):
        shutil.copy(os.path.join(src, f), os.path.join(dst, f))
notes = open(os.path.join(src, "notes.md")).read() if os.path.exists(os.path.join(src, "notes.md")) else ""
meta = {
    "property": pid,
    "origin": "written by an independent sub-agent that saw only the property text and its own worktree of the repository"
              + ("" if root == "/tmp/seeded_out" else " (later round %s: asked for changes that need something specific to manifest, and told which ideas earlier rounds had already produced)" % os.path.basename(root)),
    "needs_to_manifest": notes.strip(),
    "confirmed": {
        "patch_applies_to_current_tree": True,
        "repository_test_suite": "353 passed, 1 failed (test_schema_only, pre-existing) -- identical to the unchanged tree",
        "demo_unchanged_tree_exit": d["demo_unchanged_rc"],
        "demo_changed_tree_exit": d["demo_changed_rc"],
        "how": "selftest/seedrun.py: copy of /repo in a scratch directory, git apply patch.diff, pytest, demo.py with PYTHONPATH at both trees, ./check <ID> quick with VERIF_REPO at the changed copy",
    },
    "checks_run": {k: {"verdict": v["verdict"], "exit": v["rc"], "seconds": v["s"], "first_lines": v["lines"][:2]}
                   for k, v in d["checks"].items()},
}
json.dump(meta, open(os.path.join(dst, "meta.json"), "w"), indent=1)
