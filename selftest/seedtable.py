#!/venv/bin/python
"""Print the markdown table of seeded changes from seeded/*/meta.json."""
import glob, json, os
rows = []
for d in sorted(glob.glob("/verif/seeded/*/")):
    m = json.load(open(d + "meta.json"))
    name = os.path.basename(d.rstrip("/"))
    note = " ".join(m["needs_to_manifest"].split())
    note = note.replace("|", "/")
    first = note[:170] + ("…" if len(note) > 170 else "")
    verdicts = ", ".join("%s %s" % (k, v["verdict"].lower()) for k, v in m["checks_run"].items())
    rows.append("| `%s` | %s | %s |" % (name, verdicts, first))
print("| seeded change | checks run → verdict | what it is (from the author's notes) |")
print("|---|---|---|")
print("\n".join(rows))
