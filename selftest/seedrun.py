#!/venv/bin/python
"""Verify and run one seeded change (not a registered check).

usage: seedrun.py <dir with patch.diff + demo.py> <property ID> [more IDs ...] [--tier quick]
Copies /repo to a scratch directory outside /repo and /verif, applies patch.diff, confirms that
(1) the repository's test suite gives the baseline result, (2) demo.py passes on the unchanged
tree and fails on the changed one, then runs ./check <ID> with VERIF_REPO pointing at the copy.
Prints one JSON object; removes the scratch copy.
"""
import json, os, re, shutil, subprocess, sys, tempfile, time

args = sys.argv[1:]
tier = "quick"
if "--tier" in args:
    i = args.index("--tier"); tier = args[i + 1]; del args[i:i + 2]
sdir, ids = args[0], args[1:]
out = {"dir": sdir, "ids": ids}
scratch = tempfile.mkdtemp(prefix="zcv-seed-")
try:
    dst = os.path.join(scratch, "repo")
    shutil.copytree("/repo", dst, ignore=shutil.ignore_patterns(".git", "__pycache__", "*.egg-info", ".tox"))
    p = subprocess.run(["git", "apply", "--whitespace=nowarn", os.path.abspath(os.path.join(sdir, "patch.diff"))],
                       cwd=dst, capture_output=True, text=True)
    if p.returncode != 0:
        p = subprocess.run(["patch", "-p1", "-i", os.path.abspath(os.path.join(sdir, "patch.diff"))],
                           cwd=dst, capture_output=True, text=True)
    out["applies"] = p.returncode == 0
    if not out["applies"]:
        out["apply_error"] = (p.stdout + p.stderr)[-400:]
        print(json.dumps(out)); sys.exit(0)
    env = dict(os.environ, PYTHONPATH=os.path.join(dst, "src"), PYTHONDONTWRITEBYTECODE="1")
    p = subprocess.run(["/venv/bin/python", "-m", "pytest", "-q", "-p", "no:cacheprovider"],
                       cwd=dst, env=env, capture_output=True, text=True)
    m = re.search(r"(\d+) passed", p.stdout)
    out["tests_passed"] = int(m.group(1)) if m else 0
    mf = re.search(r"(\d+) failed", p.stdout)
    out["tests_failed"] = int(mf.group(1)) if mf else 0
    out["tests_ok"] = out["tests_passed"] == 353 and out["tests_failed"] == 1 and "test_schema_only" in p.stdout
    demo = os.path.abspath(os.path.join(sdir, "demo.py"))
    p1 = subprocess.run(["/venv/bin/python", demo], env=dict(os.environ, PYTHONPATH="/repo/src"),
                        capture_output=True, text=True, cwd=scratch, timeout=300)
    p2 = subprocess.run(["/venv/bin/python", demo], env=env, capture_output=True, text=True, cwd=scratch, timeout=300)
    out["demo_unchanged_rc"] = p1.returncode
    out["demo_changed_rc"] = p2.returncode
    out["demo_ok"] = p1.returncode == 0 and p2.returncode != 0
    out["checks"] = {}
    cenv = dict(os.environ, VERIF_REPO=dst, ZCV_EVIDENCE_DIR=os.path.join(scratch, "ev"),
                ZCV_FAILURES_DIR=os.path.join(scratch, "fail"))
    for pid in ids:
        t0 = time.time()
        p = subprocess.run(["/verif/check", pid, tier], env=cenv, capture_output=True, text=True)
        lines = [l for l in p.stdout.splitlines() if l.startswith(("FAIL", "harness", "KNOWN"))]
        out["checks"][pid] = {"rc": p.returncode, "s": round(time.time() - t0, 1),
                              "verdict": {0: "MISSED", 1: "CAUGHT"}.get(p.returncode, "HARNESS"),
                              "lines": [l[:240] for l in lines[:4]]}
        if p.returncode == 2:
            out["checks"][pid]["tail"] = (p.stdout + p.stderr)[-800:]
finally:
    shutil.rmtree(scratch, ignore_errors=True)
print(json.dumps(out, indent=1))
