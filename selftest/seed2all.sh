#!/bin/bash
# run every round-2 seed found under /tmp/seeded_out2 against its own property's check
out=/tmp/seed2_results.txt; : > $out
for d in /tmp/seeded_out2/C*/[ab]; do
  [ -f $d/patch.diff ] || continue
  id=$(basename $(dirname $d))
  /venv/bin/python /verif/selftest/seedrun.py $d $id "$@" | /venv/bin/python -c "
import json,sys;d=json.load(sys.stdin);print(d['dir'],'applies',d.get('applies'),'tests',d.get('tests_ok'),'demo',d.get('demo_ok'),{k:(v['verdict'],v['lines'][:1]) for k,v in d.get('checks',{}).items()}, d.get('apply_error','')[:200])" >> $out 2>&1
done
echo DONE >> $out
