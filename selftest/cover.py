#!/venv/bin/python
"""usage: cover.py <ID> [quick|thorough] [max shards]  -- not a registered check.
Runs the shards of one property check sequentially in this process under coverage.py
(branch coverage of /repo/src/ZConfig) and writes /tmp/zcv-cover/<ID>.json plus a text report of
the lines / branches of ZConfig the check never executed.  Used to find generator blind spots."""
import importlib, json, os, sys, tempfile
sys.path.insert(0, "/verif")
os.environ.setdefault("PYTHONHASHSEED", "0")
import coverage
pid = sys.argv[1].upper()
tier = sys.argv[2] if len(sys.argv) > 2 else "quick"
maxshards = int(sys.argv[3]) if len(sys.argv) > 3 else 999
out = "/tmp/zcv-cover"
os.makedirs(out, exist_ok=True)
tmp = tempfile.mkdtemp(prefix="zcv-cov-")
os.environ["TMPDIR"] = tmp
tempfile.tempdir = tmp
cov = coverage.Coverage(data_file=os.path.join(out, ".cov." + pid), branch=True, source=["/repo/src/ZConfig"],
                        omit=["*/tests/*"])
cov.start()
sys.path.insert(0, "/repo/src")
from zcv import runner  # noqa
runner._setup_paths()
mod = importlib.import_module("zcv.props.%s" % pid.lower())
specs = mod.shards(tier, 1)
# replay corpus too
rdir = os.path.join("/verif/replays", pid)
if os.path.isdir(rdir):
    for n in sorted(os.listdir(rdir)):
        if n.endswith(".json"):
            doc = json.load(open(os.path.join(rdir, n)))
            try:
                mod.evaluate(doc["case"] if "case" in doc else doc)
            except Exception:
                pass
for spec in specs[:maxshards]:
    mod.run_shard(spec)
cov.stop()
cov.save()
with open(os.path.join(out, pid + ".txt"), "w") as f:
    cov.report(file=f, show_missing=True, skip_empty=True)
cov.json_report(outfile=os.path.join(out, pid + ".json"))
print(pid, "done")
