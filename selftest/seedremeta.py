#!/venv/bin/python
"""usage: seedremeta.py <seeded dir name> [IDs...]  -- re-run a stored seeded change against the
given checks (default: the ones recorded) and refresh 'checks_run' in its meta.json."""
import json, subprocess, sys
name, ids = sys.argv[1], sys.argv[2:]
d = "/verif/seeded/%s/" % name
meta = json.load(open(d + "meta.json"))
ids = ids or list(meta["checks_run"])
r = subprocess.run(["/venv/bin/python", "/verif/selftest/seedrun.py", d, *ids], capture_output=True, text=True)
res = json.loads(r.stdout)
ok = res.get("applies") and res.get("tests_ok") and res.get("demo_ok")
if not ok:
    print(name, "NOT CONFIRMED", {k: res.get(k) for k in ("applies", "tests_ok", "demo_ok")})
    sys.exit(1)
for k, v in res["checks"].items():
    meta["checks_run"][k] = {"verdict": v["verdict"], "exit": v["rc"], "seconds": v["s"], "first_lines": v["lines"][:2]}
json.dump(meta, open(d + "meta.json", "w"), indent=1)
print(name, {k: v["verdict"] for k, v in meta["checks_run"].items()})
