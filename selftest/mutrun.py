#!/venv/bin/python
"""Planted-fault helper (not a registered check).

usage: mutrun.py <IDs comma separated> <relative file under src/ZConfig> <old> <new> [tier]
Copies $REPO/src to a scratch directory outside /repo and /verif, applies the single textual
replacement (must match exactly once unless old ends with '@N' selecting the N-th occurrence),
runs ./check <ID> <tier> with VERIF_REPO pointing at the copy, prints the exit status and the
VIOLATION / FAIL lines, and removes the copy.
"""
import os, shutil, subprocess, sys, tempfile, time

ids, rel, old, new = sys.argv[1:5]
tier = sys.argv[5] if len(sys.argv) > 5 else "quick"
scratch = tempfile.mkdtemp(prefix="zcv-mut-")
try:
    shutil.copytree("/repo/src", os.path.join(scratch, "src"),
                    ignore=shutil.ignore_patterns("__pycache__", "*.egg-info"))
    path = os.path.join(scratch, "src", "ZConfig", rel)
    text = open(path).read()
    nth = None
    if "@" in old and old.rsplit("@", 1)[1].isdigit():
        old, n = old.rsplit("@", 1)
        nth = int(n)
    cnt = text.count(old)
    if cnt == 0 or (cnt != 1 and nth is None):
        print("mutrun: %r occurs %d times in %s" % (old, cnt, rel)); sys.exit(3)
    if nth is None:
        text = text.replace(old, new)
    else:
        parts = text.split(old)
        text = old.join(parts[:nth]) + new + old.join(parts[nth:])
    open(path, "w").write(text)
    env = dict(os.environ, VERIF_REPO=scratch, ZCV_EVIDENCE_DIR=os.path.join(scratch, "ev"), ZCV_FAILURES_DIR=os.path.join(scratch, "fail"))
    for pid in ids.split(","):
        t0 = time.time()
        p = subprocess.run(["/verif/check", pid, tier], env=env, capture_output=True, text=True)
        lines = [l for l in p.stdout.splitlines() if l.startswith(("VIOLATION", "FAIL", "harness", "KNOWN"))]
        print("%s rc=%d %.0fs %s" % (pid, p.returncode, time.time() - t0, "CAUGHT" if p.returncode == 1 else "MISSED" if p.returncode == 0 else "HARNESS"))
        for l in lines[:6]:
            print("   ", l[:300])
        if p.returncode == 2:
            print(p.stdout[-1500:], p.stderr[-1500:])
finally:
    shutil.rmtree(scratch, ignore_errors=True)
