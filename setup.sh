#!/bin/bash
# Offline setup: make sure /venv can import hypothesis (install from the local wheelhouse if not).
PY=/venv/bin/python
if ! "$PY" -c "import hypothesis" 2>/dev/null; then
  /venv/bin/pip install --no-index --find-links /opt/veriftools/wheels hypothesis || exit 1
fi
"$PY" -c "import hypothesis; print('hypothesis', hypothesis.__version__)" || exit 1
if command -v python3-vt >/dev/null && python3-vt -c "import atheris" 2>/dev/null; then
  echo "atheris available (thorough tier of C04/C07 uses it)"
else
  echo "atheris not available: Atheris stages will report 'not run'"
fi
exit 0
